"""Reference SLC / MicroLogix controller: Execute PCCC (service 0x4B on class 0x67) carrying DF1
commands per Rockwell 1770-RM516 (protected typed logical read / masked write with three address
fields, diagnostic status).  No pycomm3 import.

Strict rule R-PCCC-FF: an address byte of 0xFF introduces a two-byte address (low byte first).
"""
import struct

from .device import Module
from .wire import build_mr_reply, ST_OK, ST_PATH_DEST, ST_SVC_UNSUP, ST_NOT_ENOUGH

# file type code -> (letter, element size in bytes)
FILE_TYPES = {0x84: ("S", 2), 0x85: ("B", 2), 0x86: ("T", 6), 0x87: ("C", 6), 0x88: ("R", 6), 0x89: ("N", 2),
              0x8A: ("F", 4), 0x8D: ("ST", 84), 0x8E: ("A", 2), 0x91: ("L", 4),
              0x82: ("O", 2), 0x8B: ("O", 2), 0x83: ("I", 2), 0x8C: ("I", 2)}
ELEM_SIZE = {"S": 2, "B": 2, "T": 6, "C": 6, "R": 6, "N": 2, "F": 4, "ST": 84, "A": 2, "L": 4, "O": 2, "I": 2}

STS_OK = 0x00
STS_ILLEGAL = 0x10          # illegal command or format
STS_ADDR = 0x50             # address problem / memory protect


class SlcController(Module):
    kind = "slc"

    def __init__(self, world, table, identity=None, io_words=4):
        """table: {file_number(int): {"type": letter, "data": hex}} ; I/O files: element = slot with io_words words"""
        idn = dict(vendor=1, product_type=14, product_code=0x59, rev_major=11, rev_minor=0, status=0, serial=0x1234,
                   product_name="1747-L552 C/C", state=3)
        if identity:
            idn.update(identity)
        super().__init__(world, idn)
        self.files = {}
        for num, f in table.items():
            self.files[int(num)] = {"type": f["type"], "data": bytearray(bytes.fromhex(f["data"]))}
        self.io_words = io_words
        self.pccc_log = []
        self.proc_type = "1747-L552"
        # data-log queues (file type 0xA5): a read returns - and consumes - the oldest record of the queue
        self.datalog = {0: [b"01/02/2026,10:11:12,%d,7" % i for i in range(40)], 1: [b"rec%d" % i for i in range(40)]}

    def elem_size(self, letter):
        if letter in ("I", "O"):
            return 2 * self.io_words
        return ELEM_SIZE[letter]

    def handle_other(self, req, ctx, cls, inst, attr):
        if cls == 0x67 and inst == 1 and req.service == 0x4B:
            return self.execute_pccc(req, ctx)
        return super().handle_other(req, ctx, cls, inst, attr)

    @staticmethod
    def _addr(d, i):
        """one DF1 address field at d[i] -> (value, next index, raw form)"""
        if i >= len(d):
            raise IndexError("address field missing")
        if d[i] == 0xFF:
            if i + 3 > len(d):
                raise IndexError("extended address truncated")
            return struct.unpack_from("<H", d, i + 1)[0], i + 3, "ext"
        return d[i], i + 1, "byte"

    def execute_pccc(self, req, ctx):
        d = req.data
        world = self.world
        rec = world.log(kind="pccc", raw=bytes(d))
        self.pccc_log.append(rec)
        if len(d) < 1 or len(d) < 1 + d[0] - 0 or d[0] < 1:
            return build_mr_reply(req.service, ST_NOT_ENOUGH)
        rid_len = d[0]
        rid = d[:rid_len]
        p = d[rid_len:]
        if len(p) < 4:
            return build_mr_reply(req.service, ST_NOT_ENOUGH)
        cmd, sts_in, tns = p[0], p[1], struct.unpack_from("<H", p, 2)[0]
        rec.update(cmd=cmd, tns=tns)

        def reply(sts, data=b"", ext=None):
            rec["sts"] = sts
            body = bytes(rid) + bytes([cmd | 0x40, sts]) + struct.pack("<H", tns)
            if ext is not None:
                body += bytes([ext])
            return build_mr_reply(req.service, ST_OK, body + data)

        inj = self.take_injection("pccc", cmd=cmd)
        if inj is not None:
            return reply(inj["sts"], bytes.fromhex(inj.get("data", "")))
        if cmd == 0x06:
            if len(p) >= 5 and p[4] == 0x03:
                info = bytearray(24)
                info[5:16] = self.proc_type.ljust(11).encode()[:11]
                return reply(STS_OK, bytes(info))
            return reply(STS_ILLEGAL)
        if cmd != 0x0F or len(p) < 5:
            return reply(STS_ILLEGAL)
        fnc = p[4]
        rec["fnc"] = fnc
        if fnc not in (0xA2, 0xAB):
            return reply(STS_ILLEGAL)
        try:
            i = 5
            size = p[i]
            i += 1
            fnum, i, f1 = self._addr(p, i)
            ftype = p[i]
            i += 1
            elem, i, f2 = self._addr(p, i)
            sub, i, f3 = self._addr(p, i)
        except IndexError as e:
            rec["why"] = str(e)
            return reply(STS_ILLEGAL)
        rec.update(size=size, file=fnum, ftype=ftype, elem=elem, sub=sub, forms=(f1, f2, f3))
        if ftype == 0xA5 and fnc == 0xA2:
            q = self.datalog.get(elem)
            rec["op"] = "datalog"
            if not q:
                rec["why"] = "data-log queue empty or absent"
                return reply(STS_ADDR)
            return reply(STS_OK, q.pop(0)[:size])
        if ftype not in FILE_TYPES:
            rec["why"] = "unknown file type"
            return reply(STS_ILLEGAL)
        letter, _ = FILE_TYPES[ftype]
        f = self.files.get(fnum)
        if f is None or f["type"] != letter:
            rec["why"] = f"file {fnum} is {f['type'] if f else 'absent'}, request says {letter}"
            return reply(STS_ADDR)
        es = self.elem_size(letter)
        off = elem * es + sub * 2
        rec["offset"] = off
        if sub * 2 >= es and not (letter in ("I", "O")):
            rec["why"] = "sub-element beyond element"
            return reply(STS_ADDR)
        if size == 0 or off + size > len(f["data"]):
            rec["why"] = f"range {off}+{size} beyond file of {len(f['data'])} bytes"
            return reply(STS_ADDR)
        if fnc == 0xA2:
            if i != len(p):
                rec["why"] = f"{len(p) - i} trailing bytes after the address"
                return reply(STS_ILLEGAL)
            rec["op"] = "read"
            rec["range"] = (fnum, off, off + size)
            return reply(STS_OK, bytes(f["data"][off:off + size]))
        # masked write
        if i + 2 > len(p):
            return reply(STS_ILLEGAL)
        mask = struct.unpack_from("<H", p, i)[0]
        i += 2
        data = p[i:]
        rec.update(mask=mask, data_len=len(data))
        if len(data) != size:
            rec["why"] = f"R-PCCC-SIZE: size field {size} but {len(data)} data bytes"
            rec["rule"] = "R-PCCC-SIZE"
            return reply(STS_ILLEGAL)
        if size % 2:
            return reply(STS_ILLEGAL)
        buf = f["data"]
        for w in range(size // 2):
            old = struct.unpack_from("<H", buf, off + 2 * w)[0]
            new = struct.unpack_from("<H", data, 2 * w)[0]
            val = (old & ~mask & 0xFFFF) | (new & mask)
            struct.pack_into("<H", buf, off + 2 * w, val)
        rec["op"] = "write"
        rec["range"] = (fnum, off, off + size)
        return reply(STS_OK)
