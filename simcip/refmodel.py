"""Reference interpretation of tag requests against a project + memory image.

A request is an AST (plain data), rendered to the documented request syntax:
  {"scope": prog|None, "tag": name, "idx": [i,..]|None,
   "path": [{"m": member, "idx": [k]|None}, ...], "bit": b|None, "count": n|None}
For BOOL arrays (DWORD arrays) "idx" is the BOOL index and "count" the number of BOOLs.
No pycomm3 import.
"""
import math
import struct

from .wire import ATOMIC_BY_NAME, dec_atomic, enc_atomic


def render(req):
    s = ""
    if req.get("scope"):
        s += f"Program:{req['scope']}."
    s += req["tag"]
    if req.get("idx") is not None:
        s += "[" + ",".join(str(i) for i in req["idx"]) + "]"
    for p in req.get("path", ()):
        s += "." + p["m"]
        if p.get("idx") is not None:
            s += "[" + ",".join(str(i) for i in p["idx"]) + "]"
    if req.get("bit") is not None:
        s += f".{req['bit']}"
    base = s
    if req.get("count") is not None:
        s += "{" + str(req["count"]) + "}"
    return s, base


class Ref:
    def __init__(self, project):
        self.project = project
        self.types = project["types"]
        self.tags = {(t.get("scope"), t["name"]): t for t in project["tags"] if "type" in t}

    def esize(self, tname):
        if tname in ATOMIC_BY_NAME:
            return ATOMIC_BY_NAME[tname][1]
        return self.types[tname]["size"]

    # ---- address ----------------------------------------------------------
    def resolve(self, req):
        """-> dict(key, off, type, remaining, boolarr(bool), bitmember(bit|None))"""
        t = self.tags[(req.get("scope"), req["tag"])]
        key = (t.get("scope"), t["name"])
        off = 0
        cur = t["type"]
        dims = list(t.get("dims") or ())
        steps = [(req.get("idx"), None)] + [(p.get("idx"), p["m"]) for p in req.get("path", ())]
        remaining = 1
        first = True
        bitmember = None
        for idx, member in steps:
            if member is not None:
                td = self.types[cur]
                m = next(mm for mm in td["members"] if mm["name"] == member)
                off += m["offset"]
                if m["type"] == "BOOL" and m.get("bit") is not None:
                    return {"key": key, "off": off, "type": "BOOL", "remaining": 1, "boolarr": False,
                            "bitmember": m["bit"], "tagdef": t}
                cur = m["type"]
                dims = [m["array"]] if m.get("array") else []
            n = 1
            for d in dims:
                n *= d
            if cur == "DWORD" and dims:
                # BOOL array: idx is a bit index, handled by the caller
                return {"key": key, "off": off, "type": "DWORD", "remaining": n, "boolarr": True,
                        "bitmember": None, "tagdef": t, "bitidx": (idx[0] if idx else None)}
            if idx is not None:
                lin = 0
                for d, x in zip(dims, idx):
                    lin = lin * d + x
                off += lin * self.esize(cur)
                remaining = n - lin
            else:
                remaining = n if dims else 1
        return {"key": key, "off": off, "type": cur, "remaining": remaining, "boolarr": False,
                "bitmember": None, "tagdef": t}

    # ---- values -----------------------------------------------------------
    def value_at(self, mem, tname, off):
        """python value of one element of type tname at off (structures: visible members)"""
        if tname in ATOMIC_BY_NAME:
            size = ATOMIC_BY_NAME[tname][1]
            return dec_atomic(tname, bytes(mem[off:off + size]))
        td = self.types[tname]
        if td.get("string_cap") is not None:
            ln = struct.unpack_from("<i", mem, off)[0]
            ln = max(0, min(ln, td["size"] - 4))
            return bytes(mem[off + 4:off + 4 + ln]).decode("latin-1")
        out = {}
        for m in td["members"]:
            if m["hidden"]:
                continue
            mo = off + m["offset"]
            if m["type"] == "BOOL" and m.get("bit") is not None:
                out[m["name"]] = bool(mem[mo] >> m["bit"] & 1)
            elif m["type"] == "DWORD" and m.get("array"):
                bits = []
                for i in range(m["array"]):
                    bits += dec_atomic("DWORD", bytes(mem[mo + 4 * i:mo + 4 * i + 4]))
                out[m["name"]] = bits
            elif m.get("array"):
                es = self.esize(m["type"])
                out[m["name"]] = [self.value_at(mem, m["type"], mo + i * es) for i in range(m["array"])]
            else:
                out[m["name"]] = self.value_at(mem, m["type"], mo)
        return out

    def type_name(self, tname):
        return tname

    def expect_read(self, req, memory):
        """-> (tag_name, value, type_string)"""
        full, base = render(req)
        a = self.resolve(req)
        mem = memory[a["key"]]
        cnt = req.get("count")
        if a["boolarr"]:
            i = a["bitidx"] or 0
            n = cnt if cnt is not None else 1
            allbits = []
            for k in range(a["remaining"]):
                allbits += dec_atomic("DWORD", bytes(mem[a["off"] + 4 * k:a["off"] + 4 * k + 4]))
            if n == 1:
                return base, allbits[i], "BOOL"
            return base, allbits[i:i + n], f"BOOL[{n}]"
        if a["bitmember"] is not None:
            return base, bool(mem[a["off"]] >> a["bitmember"] & 1), "BOOL"
        if req.get("bit") is not None:
            size = ATOMIC_BY_NAME[a["type"]][1]
            v = int.from_bytes(mem[a["off"]:a["off"] + size], "little")
            return base, bool(v >> req["bit"] & 1), "BOOL"
        es = self.esize(a["type"])
        n = cnt if cnt is not None else 1
        vals = [self.value_at(mem, a["type"], a["off"] + i * es) for i in range(n)]
        tn = self.type_name(a["type"])
        if n == 1:
            return base, vals[0], tn
        return base, vals, f"{tn}[{n}]"

    # ---- writes -----------------------------------------------------------
    def constraints_for_value(self, tname, off, value, out):
        """append (off, bytes, mask) constraints for writing `value` as one element of tname at off.
        mask None = all bits of those bytes are determined."""
        if tname in ATOMIC_BY_NAME:
            if tname == "BOOL":
                out.append((off, b"\x01" if value else b"\x00", None))
            elif tname == "DWORD":
                out.append((off, enc_atomic("DWORD", value), None))
            else:
                out.append((off, enc_atomic(tname, value), None))
            return
        td = self.types[tname]
        if td.get("string_cap") is not None:
            cap = td["string_cap"]
            b = value.encode("latin-1")[:cap]
            out.append((off, struct.pack("<i", len(b)), None))
            if b:
                out.append((off + 4, b, None))
            return
        for m in td["members"]:
            if m["hidden"]:
                continue
            mo = off + m["offset"]
            v = value[m["name"]]
            if m["type"] == "BOOL" and m.get("bit") is not None:
                out.append((mo, bytes([(1 << m["bit"]) if v else 0]), bytes([1 << m["bit"]])))
            elif m["type"] == "DWORD" and m.get("array"):
                for i in range(m["array"]):
                    out.append((mo + 4 * i, enc_atomic("DWORD", v[32 * i:32 * i + 32]), None))
            elif m.get("array"):
                es = self.esize(m["type"])
                for i in range(m["array"]):
                    self.constraints_for_value(m["type"], mo + i * es, v[i], out)
            else:
                self.constraints_for_value(m["type"], mo, v, out)

    def expect_write(self, req, value):
        """-> dict(key, range (lo, hi) of bytes that may change, constraints [(off, bytes, mask)],
        tag_name, type_string)"""
        full, base = render(req)
        a = self.resolve(req)
        cnt = req.get("count")
        cons = []
        if a["boolarr"]:
            i = a["bitidx"] or 0
            n = cnt if cnt is not None else 1
            if n == 1 and (cnt is None or cnt == 1):
                byte = a["off"] + i // 8
                cons.append((byte, bytes([(1 << (i % 8)) if value else 0]), bytes([1 << (i % 8)])))
                return {"key": a["key"], "range": (byte, byte + 1), "cons": cons, "tag": base, "type": "BOOL",
                        "kind": "boolarr_bit"}
            lo = a["off"] + (i // 32) * 4
            nd = (n + 31) // 32
            for k in range(nd):
                cons.append((lo + 4 * k, enc_atomic("DWORD", list(value[32 * k:32 * k + 32])), None))
            return {"key": a["key"], "range": (lo, lo + 4 * nd), "cons": cons, "tag": base, "type": f"BOOL[{n}]",
                    "kind": "boolarr_range"}
        if a["bitmember"] is not None:
            cons.append((a["off"], bytes([(1 << a["bitmember"]) if value else 0]), bytes([1 << a["bitmember"]])))
            return {"key": a["key"], "range": (a["off"], a["off"] + 1), "cons": cons, "tag": base, "type": "BOOL",
                    "kind": "bitmember"}
        if req.get("bit") is not None:
            b = req["bit"]
            byte = a["off"] + b // 8
            cons.append((byte, bytes([(1 << (b % 8)) if value else 0]), bytes([1 << (b % 8)])))
            return {"key": a["key"], "range": (byte, byte + 1), "cons": cons, "tag": base, "type": "BOOL",
                    "kind": "bit"}
        es = self.esize(a["type"])
        n = cnt if cnt is not None else 1
        if isinstance(value, (bytes, bytearray)):
            # raw bytes are written as they are (documented for structures; accepted for every tag)
            kind = "raw_bytes"
            return {"key": a["key"], "range": (a["off"], a["off"] + n * es), "cons": [(a["off"], bytes(value), None)],
                    "tag": base, "type": a["type"] if n == 1 else f"{a['type']}[{n}]", "kind": kind}
        vals = list(value[:n]) if (cnt is not None and n > 1) else [value]
        if cnt is not None and n == 1 and isinstance(value, list):
            vals = [value[0]]
        for k in range(n):
            self.constraints_for_value(a["type"], a["off"] + k * es, vals[k], cons)
        tn = a["type"] if n == 1 else f"{a['type']}[{n}]"
        kind = "atomic" if a["type"] in ATOMIC_BY_NAME else ("string" if self.types[a["type"]].get("string_cap") is not None else "struct")
        if n > 1:
            kind += "_array"
        return {"key": a["key"], "range": (a["off"], a["off"] + n * es), "cons": cons, "tag": base, "type": tn,
                "kind": kind}


def values_equal(a, b):
    """exact for ints/str/bool; floats by value with any-NaN == any-NaN; recursive"""
    if isinstance(a, float) or isinstance(b, float):
        if isinstance(a, bool) or isinstance(b, bool):
            return False
        if not isinstance(a, (int, float)) or not isinstance(b, (int, float)):
            return False
        if isinstance(a, float) and isinstance(b, float) and math.isnan(a) and math.isnan(b):
            return True
        return a == b and (not (a == 0 and b == 0) or math.copysign(1, a) == math.copysign(1, b))
    if type(a) is bool or type(b) is bool:
        return type(a) is type(b) and a == b
    if isinstance(a, (list, tuple)) and isinstance(b, (list, tuple)):
        return len(a) == len(b) and all(values_equal(x, y) for x, y in zip(a, b))
    if isinstance(a, dict) and isinstance(b, dict):
        return set(a.keys()) == set(b.keys()) and all(values_equal(a[k], b[k]) for k in a)
    return type(a) is type(b) and a == b
