"""known_findings.json: committed, never written at run time.
entry = {"status": "open"|"fixed", "property", "signature": {"oracle", "features": {...}}, "what", ...}
A violation matches an OPEN entry when property and oracle are equal and every feature the entry
lists has the same value in the violation's signature.  'fixed' entries suppress nothing."""
import json
import os

PATH = os.path.join(os.path.dirname(os.path.dirname(os.path.abspath(__file__))), "known_findings.json")


def load():
    if not os.path.exists(PATH):
        return []
    return json.load(open(PATH))


def match(entries, sig):
    for e in entries:
        if e.get("status") != "open":
            continue
        if e["property"] != sig["property"]:
            continue
        es = e["signature"]
        if es.get("oracle") != sig["oracle"]:
            continue
        feats = sig["features"]
        if all(feats.get(k) == v for k, v in es.get("features", {}).items()):
            return e
    return None
