"""setup and determinism self-tests"""
import json
import os
import subprocess
import sys

from .kernel import derive_seed, HarnessError
from . import runner, plans


def _digests(n):
    out = {}
    for name in runner.ENGINE_NAMES:
        try:
            eng = runner.engine(name)
        except ModuleNotFoundError:
            continue
        takes = getattr(eng, "GEN_TAKES_PROP", False)
        props = getattr(eng, "PROPS", ("",))
        for i in range(n):
            seed = derive_seed("det", name, i) % (2**48)
            prop = props[i % len(props)]
            sc = eng.gen(seed, "quick", prop) if takes else eng.gen(seed, "quick")
            out[f"{name}/{i}"] = eng.run(sc)["digest"]
    return out


def print_digests(n):
    print(json.dumps(_digests(n), sort_keys=True))
    return 0


def determinism(n):
    a = _digests(n)
    b = _digests(n)
    bad = [k for k in a if a[k] != b[k]]
    env = dict(os.environ, PYTHONHASHSEED="12345")
    here = os.path.dirname(os.path.dirname(os.path.abspath(__file__)))
    p = subprocess.run([sys.executable, os.path.join(here, "check.py"), "--digests", str(n)],
                       capture_output=True, text=True, env=env, timeout=1800)
    if p.returncode != 0:
        print(p.stderr[-2000:], file=sys.stderr)
        raise HarnessError("fresh-interpreter digest run failed")
    c = json.loads(p.stdout.strip().splitlines()[-1])
    bad += [k for k in a if a[k] != c.get(k)]
    if bad:
        print(f"HARNESS-ERROR: {len(bad)} digest mismatches, e.g. {sorted(set(bad))[:5]}", file=sys.stderr)
        return 2
    print(f"determinism ok: {len(a)} scenarios x (twice in-process + fresh interpreter with PYTHONHASHSEED=12345)")
    return 0


def setup():
    from . import harness
    harness.lib()
    rc = determinism(6)
    if rc:
        return rc
    print("setup ok")
    return 0
