"""Simulation kernel: seeded sub-streams, virtual clock, event log, budgets, probes.

Everything a run decides is drawn from `Sim.stream(name)`; names are hashed with
SHA-256 (never hash()) so they are stable across processes and PYTHONHASHSEED.
Logging paths never draw from a PRNG and never read a real clock.
"""
import hashlib
import random


class SimBudgetExceeded(BaseException):
    """A run blew one of its budgets.  BaseException on purpose: the library has
    many `except Exception` blocks that must not be able to swallow it."""


class HarnessError(Exception):
    """The machinery itself is broken (seam missing, determinism mismatch...).
    Never reported as VIOLATION and never as a pass (exit code 2)."""


def derive_seed(*parts) -> int:
    h = hashlib.sha256("/".join(str(p) for p in parts).encode()).digest()
    return int.from_bytes(h[:8], "big")


class Sim:
    DEFAULT_BUDGETS = {
        "frames": 100000,        # client->peer frames handled by endpoints
        "raw_io": 3000000,      # raw recv/send calls on simulated sockets
        "vtime_us": 3600 * 10**6,
    }

    def __init__(self, seed: int, budgets=None):
        self.seed = int(seed)
        self.now_us = 0
        self.eseq = 0
        self.events = []          # (eseq, vtime, actor, kind, detail)
        self._h = hashlib.sha256()
        self.keep_events = True
        self.budgets = dict(self.DEFAULT_BUDGETS)
        if budgets:
            self.budgets.update(budgets)
        self.used = {"frames": 0, "raw_io": 0}
        self.blown = None         # sticky: name of the blown budget
        self.faults_fired = {}    # kind -> count (fired, not configured)
        self.probes = {}          # name -> count
        self._streams = {}

    # ---- randomness -----------------------------------------------------
    def stream(self, name: str) -> random.Random:
        r = self._streams.get(name)
        if r is None:
            r = random.Random(derive_seed(self.seed, name))
            self._streams[name] = r
        return r

    # ---- time -----------------------------------------------------------
    def advance(self, us: int):
        self.now_us += int(us)
        if self.now_us > self.budgets["vtime_us"]:
            self.blow("vtime_us")

    def time(self) -> float:
        return self.now_us / 1e6

    # ---- log ------------------------------------------------------------
    def log(self, actor: str, kind: str, detail=""):
        self.eseq += 1
        if isinstance(detail, (bytes, bytearray)):
            detail = bytes(detail).hex()
        rec = (self.eseq, self.now_us, actor, kind, detail)
        self._h.update(repr(rec).encode())
        if self.keep_events:
            self.events.append(rec)

    def digest(self) -> str:
        return self._h.hexdigest()

    # ---- budgets --------------------------------------------------------
    def charge(self, what: str, n: int = 1):
        self.used[what] = self.used.get(what, 0) + n
        if self.used[what] > self.budgets[what]:
            self.blow(what)

    def blow(self, what: str):
        if self.blown is None:
            self.blown = what
            self.log("sim", "budget_blown", what)
        raise SimBudgetExceeded(what)

    # ---- counters -------------------------------------------------------
    def fired(self, kind: str):
        self.faults_fired[kind] = self.faults_fired.get(kind, 0) + 1
        self.log("fault", kind)

    def probe(self, name: str, n: int = 1):
        self.probes[name] = self.probes.get(name, 0) + n


class Baton:
    """Deterministic scheduler for real caller threads: exactly one thread runs at a time; at every yield point
    (a raw socket call) the running thread parks and a seeded PRNG decides who continues.  One seed = one
    interleaving, exactly repeatable."""

    def __init__(self, rng, max_steps=200000):
        import threading
        self.rng = rng
        self.cv = threading.Condition()
        self.turn = None
        self.parked = set()
        self.done = set()
        self.ids = {}          # thread ident -> tid
        self.schedule = []
        self.max_steps = max_steps
        self.threading = threading

    def yield_point(self):
        tid = self.ids.get(self.threading.get_ident())
        if tid is None:
            return              # the main thread (set-up, connect) is not scheduled
        with self.cv:
            self.parked.add(tid)
            self.turn = None
            self.cv.notify_all()
            while self.turn != tid:
                self.cv.wait()
            self.parked.discard(tid)

    def spawn(self, tid, fn):
        def body():
            self.ids[self.threading.get_ident()] = tid
            self.yield_point()          # every thread starts parked
            try:
                fn()
            finally:
                with self.cv:
                    self.done.add(tid)
                    self.turn = None
                    self.cv.notify_all()
        t = self.threading.Thread(target=body, daemon=True)
        t.start()
        return t

    def run(self, tids):
        steps = 0
        with self.cv:
            while True:
                while self.turn is not None or any(t not in self.parked and t not in self.done for t in tids):
                    if not self.cv.wait(timeout=120):
                        raise HarnessError("thread scheduler: a caller thread neither parked nor finished")
                live = sorted(t for t in tids if t not in self.done)
                if not live:
                    return
                steps += 1
                if steps > self.max_steps:
                    raise HarnessError("thread scheduler: step budget exceeded")
                pick = self.rng.choice(live)
                self.schedule.append(pick)
                self.turn = pick
                self.cv.notify_all()
