"""Seams and the generic run harness.

pycomm3 is imported lazily (after check.py has put VERIF_REPO, default /repo, first on
sys.path).  Its nondeterminism seams are found by identity, not by name: every global of a
pycomm3 module that *is* the socket module / socket class / a lookup function / os.urandom /
the os module / the time module / time.time is replaced for the duration of one run (on the
pinned tree: pycomm3.socket_.socket, pycomm3.cip_driver.socket, pycomm3.cip_driver.urandom,
pycomm3.logix_driver.time).  No transport or no randomness reference at all is a HarnessError
(exit 2), never a silent pass.
"""
import logging
import os
import sys

from .kernel import Sim, SimBudgetExceeded, HarnessError
from .net import SimNet

_LIB = None


def lib():
    """import pycomm3 from VERIF_REPO (default /repo) exactly once"""
    global _LIB
    if _LIB is None:
        repo = os.environ.get("VERIF_REPO", "/repo")
        if sys.path[0] != repo:
            sys.path.insert(0, repo)
        sys.dont_write_bytecode = True
        import pycomm3
        import pycomm3.socket_
        import pycomm3.cip_driver
        import pycomm3.logix_driver
        import pycomm3.slc_driver
        got = os.path.realpath(os.path.dirname(os.path.dirname(pycomm3.__file__)))
        if got != os.path.realpath(repo):
            raise HarnessError(f"pycomm3 imported from {got}, expected {repo}")
        _find_seams()
        _LIB = pycomm3
        # logging: real, but quiet by default and never to stderr
        root = logging.getLogger("pycomm3")
        root.handlers[:] = [logging.NullHandler()]
        root.propagate = False
        root.setLevel(logging.CRITICAL + 10)
    return _LIB


_SEAMS = []        # (module, attribute name, kind) - every place where the library holds a source of nondeterminism


def _find_seams():
    """scan the loaded pycomm3 modules for references to the real socket module / socket class / lookup
    functions, os.urandom, the time module / time.time.  Finding them by identity instead of by name keeps
    the harness working when the library is refactored (e.g. `import os` instead of `from os import urandom`
    is still caught through the `os` module reference)."""
    import socket as _rs
    import os as _os
    import time as _rt
    kinds = [(_rs, "socket_module"), (_rs.socket, "socket_class"), (_rs.gethostbyname, "gethostbyname"),
             (_rs.getaddrinfo, "getaddrinfo"), (_rs.gethostname, "gethostname"), (_rs.create_connection, "create_connection"),
             (_os.urandom, "urandom"), (_os, "os_module"), (_rt, "time_module"), (_rt.time, "time_func")]
    del _SEAMS[:]
    for name, mod in sorted(sys.modules.items()):
        if not (name == "pycomm3" or name.startswith("pycomm3.")) or mod is None:
            continue
        for attr, val in list(vars(mod).items()):
            for obj, kind in kinds:
                if val is obj:
                    _SEAMS.append((mod, attr, kind))
    have = {k for _, _, k in _SEAMS}
    if not ({"socket_module", "socket_class"} & have):
        raise HarnessError("no reference to the socket module/class found in pycomm3: transport seam is gone")
    # randomness needs no reference inside the package: for the duration of a run os.urandom, the generator
    # behind random.SystemRandom / secrets and the state of the global `random` module are owned by the
    # simulation as well (Seams.__enter__), so `random.SystemRandom().getrandbits(16)` is as repeatable as
    # `urandom(2)`; what remains uncontrolled shows up in the double-run digest comparison


class _OsProxy:
    """stands in for the `os` module where the library holds a reference to it: urandom is seeded"""

    def __init__(self, urandom):
        self.urandom = urandom

    def __getattr__(self, name):
        import os as _os
        return getattr(_os, name)


class _ListHandler(logging.Handler):
    """formats every record (exercising __repr__ / lazy formatters) into a bounded sink"""

    def __init__(self):
        super().__init__()
        self.n = 0

    def emit(self, record):
        try:
            record.getMessage()
        except Exception:  # a logging failure must never change behaviour
            pass
        self.n += 1


class _Clock:
    def __init__(self, sim):
        self._sim = sim

    def time(self):
        return self._sim.time()

    def __getattr__(self, name):
        import time as _t
        if name in ("sleep", "monotonic", "perf_counter", "time_ns"):
            raise HarnessError(f"library reached time.{name}: unsimulated clock use")
        return getattr(_t, name)


class Seams:
    """installs the seams for one run; use as a context manager"""

    def __init__(self, sim: Sim, net: SimNet, log_mode="off"):
        self.sim = sim
        self.net = net
        self.log_mode = log_mode
        self._saved = []
        self._urng = sim.stream("seam/urandom")
        self.handler = None

    def _urandom(self, n):
        return bytes(self._urng.randrange(256) for _ in range(n))

    def _no_create_connection(self, *a, **k):
        raise HarnessError("library reached socket.create_connection: unsimulated transport call")

    def __enter__(self):
        p = lib()
        clock = _Clock(self.sim)
        fake = {"socket_module": self.net.mod, "socket_class": self.net.mod.socket,
                "gethostbyname": self.net.mod.gethostbyname, "getaddrinfo": self.net.mod.getaddrinfo,
                "gethostname": self.net.mod.gethostname, "create_connection": self.net.mod.create_connection,
                "urandom": self._urandom, "os_module": _OsProxy(self._urandom), "time_module": clock,
                "time_func": clock.time}
        for mod, attr, kind in _SEAMS:
            self._saved.append((mod, attr, getattr(mod, attr)))
            setattr(mod, attr, fake[kind])
        import os as _os
        import random as _random
        for mod, attr in ((_os, "urandom"), (_random, "_urandom")):
            if hasattr(mod, attr):
                self._saved.append((mod, attr, getattr(mod, attr)))
                setattr(mod, attr, self._urandom)
        self._rand_state = _random.getstate()
        _random.seed(self._urng.getrandbits(64))
        root = logging.getLogger("pycomm3")
        if self.log_mode == "verbose":
            self.handler = _ListHandler()
            root.handlers[:] = [self.handler]
            root.setLevel(1)
        else:
            root.handlers[:] = [logging.NullHandler()]
            root.setLevel(logging.CRITICAL + 10)
        return self

    def __exit__(self, *exc):
        for mod, attr, val in reversed(self._saved):
            setattr(mod, attr, val)
        self._saved.clear()
        import random as _random
        _random.setstate(self._rand_state)
        root = logging.getLogger("pycomm3")
        root.handlers[:] = [logging.NullHandler()]
        root.setLevel(logging.CRITICAL + 10)
        return False


def exc_class(e) -> str:
    """'library' for PycommError subclasses, 'budget', else 'foreign:<Type>'"""
    p = lib()
    if isinstance(e, SimBudgetExceeded):
        return "budget"
    if isinstance(e, p.PycommError):
        return "library"
    return "foreign:" + type(e).__name__


def call(sim, fn, *a, **k):
    """run one public call; -> (outcome, value_or_exception)
    outcome in {'ok', 'library', 'foreign:<T>', 'budget'}"""
    try:
        v = fn(*a, **k)
    except SimBudgetExceeded as e:
        return "budget", e
    except HarnessError:
        raise
    except BaseException as e:  # noqa - we classify everything, incl. StopIteration & co
        if isinstance(e, (KeyboardInterrupt, SystemExit, MemoryError)):
            raise
        return exc_class(e), e
    if sim.blown:
        return "budget", SimBudgetExceeded(sim.blown)
    return "ok", v
