"""Seams and the generic run harness.

pycomm3 is imported lazily (after check.py has put VERIF_REPO, default /repo, first on
sys.path) and its four nondeterminism seams are replaced by attribute assignment:
  pycomm3.socket_.socket, pycomm3.cip_driver.socket, pycomm3.cip_driver.urandom,
  pycomm3.logix_driver.time
A missing seam is a HarnessError (exit 2), never a silent pass.
"""
import logging
import os
import sys

from .kernel import Sim, SimBudgetExceeded, HarnessError
from .net import SimNet

_LIB = None


def lib():
    """import pycomm3 from VERIF_REPO (default /repo) exactly once"""
    global _LIB
    if _LIB is None:
        repo = os.environ.get("VERIF_REPO", "/repo")
        if sys.path[0] != repo:
            sys.path.insert(0, repo)
        sys.dont_write_bytecode = True
        import pycomm3
        import pycomm3.socket_
        import pycomm3.cip_driver
        import pycomm3.logix_driver
        import pycomm3.slc_driver
        got = os.path.realpath(os.path.dirname(os.path.dirname(pycomm3.__file__)))
        if got != os.path.realpath(repo):
            raise HarnessError(f"pycomm3 imported from {got}, expected {repo}")
        for mod, attr in ((pycomm3.socket_, "socket"), (pycomm3.cip_driver, "socket"),
                          (pycomm3.cip_driver, "urandom"), (pycomm3.logix_driver, "time")):
            if not hasattr(mod, attr):
                raise HarnessError(f"seam {mod.__name__}.{attr} is gone")
        _LIB = pycomm3
        # logging: real, but quiet by default and never to stderr
        root = logging.getLogger("pycomm3")
        root.handlers[:] = [logging.NullHandler()]
        root.propagate = False
        root.setLevel(logging.CRITICAL + 10)
    return _LIB


class _ListHandler(logging.Handler):
    """formats every record (exercising __repr__ / lazy formatters) into a bounded sink"""

    def __init__(self):
        super().__init__()
        self.n = 0

    def emit(self, record):
        try:
            record.getMessage()
        except Exception:  # a logging failure must never change behaviour
            pass
        self.n += 1


class _Clock:
    def __init__(self, sim):
        self._sim = sim

    def time(self):
        return self._sim.time()

    def __getattr__(self, name):
        import time as _t
        if name in ("sleep", "monotonic", "perf_counter", "time_ns"):
            raise HarnessError(f"library reached time.{name}: unsimulated clock use")
        return getattr(_t, name)


class Seams:
    """installs the seams for one run; use as a context manager"""

    def __init__(self, sim: Sim, net: SimNet, log_mode="off"):
        self.sim = sim
        self.net = net
        self.log_mode = log_mode
        self._saved = []
        self._urng = sim.stream("seam/urandom")
        self.handler = None

    def _urandom(self, n):
        return bytes(self._urng.randrange(256) for _ in range(n))

    def __enter__(self):
        p = lib()
        import pycomm3.socket_ as s_
        import pycomm3.cip_driver as c_
        import pycomm3.logix_driver as l_
        for mod, attr, val in ((s_, "socket", self.net.mod), (c_, "socket", self.net.mod),
                               (c_, "urandom", self._urandom), (l_, "time", _Clock(self.sim))):
            self._saved.append((mod, attr, getattr(mod, attr)))
            setattr(mod, attr, val)
        root = logging.getLogger("pycomm3")
        if self.log_mode == "verbose":
            self.handler = _ListHandler()
            root.handlers[:] = [self.handler]
            root.setLevel(1)
        else:
            root.handlers[:] = [logging.NullHandler()]
            root.setLevel(logging.CRITICAL + 10)
        return self

    def __exit__(self, *exc):
        for mod, attr, val in reversed(self._saved):
            setattr(mod, attr, val)
        self._saved.clear()
        root = logging.getLogger("pycomm3")
        root.handlers[:] = [logging.NullHandler()]
        root.setLevel(logging.CRITICAL + 10)
        return False


def exc_class(e) -> str:
    """'library' for PycommError subclasses, 'budget', else 'foreign:<Type>'"""
    p = lib()
    if isinstance(e, SimBudgetExceeded):
        return "budget"
    if isinstance(e, p.PycommError):
        return "library"
    return "foreign:" + type(e).__name__


def call(sim, fn, *a, **k):
    """run one public call; -> (outcome, value_or_exception)
    outcome in {'ok', 'library', 'foreign:<T>', 'budget'}"""
    try:
        v = fn(*a, **k)
    except SimBudgetExceeded as e:
        return "budget", e
    except HarnessError:
        raise
    except BaseException as e:  # noqa - we classify everything, incl. StopIteration & co
        if isinstance(e, (KeyboardInterrupt, SystemExit, MemoryError)):
            raise
        return exc_class(e), e
    if sim.blown:
        return "budget", SimBudgetExceeded(sim.blown)
    return "ok", v
