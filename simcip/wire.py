"""Independent wire-level reference: codec, strict padded-EPATH parser, encapsulation /
common-packet-format / message-router parsing and reply building.

Deliberately does NOT import pycomm3.  Sources: ODVA CIP Vol 1 (App. C path
segments, message router request/response format, connection manager), Vol 2
(encapsulation), Rockwell 1756-PM020 (Logix data access), 1770-RM516 (DF1/PCCC).
"""
import struct

# --------------------------------------------------------------------------
# elementary types (CIP Vol 1 App. C-6.1): code -> (name, size, struct fmt)
ATOMIC = {
    0xC1: ("BOOL", 1, None),
    0xC2: ("SINT", 1, "<b"),
    0xC3: ("INT", 2, "<h"),
    0xC4: ("DINT", 4, "<i"),
    0xC5: ("LINT", 8, "<q"),
    0xC6: ("USINT", 1, "<B"),
    0xC7: ("UINT", 2, "<H"),
    0xC8: ("UDINT", 4, "<I"),
    0xC9: ("ULINT", 8, "<Q"),
    0xCA: ("REAL", 4, "<f"),
    0xCB: ("LREAL", 8, "<d"),
    0xD1: ("BYTE", 1, None),
    0xD2: ("WORD", 2, None),
    0xD3: ("DWORD", 4, None),
    0xD4: ("LWORD", 8, None),
}
ATOMIC_BY_NAME = {v[0]: (k, v[1], v[2]) for k, v in ATOMIC.items()}
INT_RANGES = {
    "SINT": (-2**7, 2**7 - 1), "INT": (-2**15, 2**15 - 1), "DINT": (-2**31, 2**31 - 1),
    "LINT": (-2**63, 2**63 - 1), "USINT": (0, 2**8 - 1), "UINT": (0, 2**16 - 1),
    "UDINT": (0, 2**32 - 1), "ULINT": (0, 2**64 - 1),
}


def atomic_size(name):
    return ATOMIC_BY_NAME[name][1]


def dec_atomic(name, b):
    """bytes -> python value for one element of an elementary type"""
    code, size, fmt = ATOMIC_BY_NAME[name]
    assert len(b) == size, (name, b)
    if name == "BOOL":
        return b != b"\x00"
    if fmt is None:  # bit strings: list of bools, LSB first
        v = int.from_bytes(b, "little")
        return [bool(v >> i & 1) for i in range(size * 8)]
    return struct.unpack(fmt, b)[0]


def enc_atomic(name, v):
    code, size, fmt = ATOMIC_BY_NAME[name]
    if name == "BOOL":
        return b"\x01" if v else b"\x00"
    if fmt is None:
        x = 0
        for i, bit in enumerate(v):
            if bit:
                x |= 1 << i
        return x.to_bytes(size, "little")
    return struct.pack(fmt, v)


class WireError(Exception):
    """the bytes violate a named strict rule"""

    def __init__(self, rule, msg):
        super().__init__(f"{rule}: {msg}")
        self.rule = rule
        self.msg = msg


# --------------------------------------------------------------------------
# padded EPATH (CIP Vol 1 App. C-1)
LOGICAL_TYPES = {0: "class", 1: "instance", 2: "member", 3: "connpoint", 4: "attribute",
                 5: "special", 6: "service"}


def parse_padded_epath(b: bytes):
    """strict parse of a padded EPATH (without the word-count prefix).
    Returns a list of segments:
      ("logical", kind, value, width)   kind in LOGICAL_TYPES values
      ("symbol", name:str)
      ("port", port:int, link:int|bytes)
      ("data", bytes)
    Raises WireError(rule, ...)."""
    if len(b) % 2:
        raise WireError("R-EPATH-EVEN", f"padded path has odd length {len(b)}")
    segs = []
    i = 0
    n = len(b)
    while i < n:
        s = b[i]
        typ = s >> 5
        if typ == 0b001:            # logical
            ltype = (s >> 2) & 7
            fmt = s & 3
            if ltype not in LOGICAL_TYPES:
                raise WireError("R-EPATH-LOGTYPE", f"reserved logical type in 0x{s:02x}")
            kind = LOGICAL_TYPES[ltype]
            if kind in ("special", "service"):
                raise WireError("R-EPATH-LOGTYPE", f"unexpected logical type {kind} 0x{s:02x}")
            if fmt == 0:
                if i + 2 > n:
                    raise WireError("R-EPATH-TRUNC", "8-bit logical segment truncated")
                segs.append(("logical", kind, b[i + 1], 1))
                i += 2
            elif fmt == 1:
                if i + 4 > n:
                    raise WireError("R-EPATH-TRUNC", "16-bit logical segment truncated")
                if b[i + 1] != 0:
                    raise WireError("R-EPATH-PAD", "non-zero pad in 16-bit logical segment")
                segs.append(("logical", kind, int.from_bytes(b[i + 2:i + 4], "little"), 2))
                i += 4
            elif fmt == 2:
                if kind not in ("instance", "connpoint", "member"):
                    # Vol 1 C-1.4.2: 32-bit only for instance id / connection point;
                    # Logix (1756-PM020) additionally uses 0x2A for 32-bit element ids
                    raise WireError("R-EPATH-FMT32", f"32-bit format not allowed for {kind}")
                if i + 6 > n:
                    raise WireError("R-EPATH-TRUNC", "32-bit logical segment truncated")
                if b[i + 1] != 0:
                    raise WireError("R-EPATH-PAD", "non-zero pad in 32-bit logical segment")
                segs.append(("logical", kind, int.from_bytes(b[i + 2:i + 6], "little"), 4))
                i += 6
            else:
                raise WireError("R-EPATH-FMT", f"reserved logical format 0b11 in segment 0x{s:02x}")
        elif typ == 0b100:          # data segment
            if s == 0x91:
                if i + 2 > n:
                    raise WireError("R-EPATH-TRUNC", "symbol segment truncated")
                ln = b[i + 1]
                if ln == 0:
                    raise WireError("R-EPATH-SYM", "empty symbol")
                end = i + 2 + ln
                if end > n:
                    raise WireError("R-EPATH-TRUNC", "symbol chars truncated")
                name = b[i + 2:end]
                if ln % 2:
                    if end + 1 > n:
                        raise WireError("R-EPATH-PAD", "missing pad after odd-length symbol")
                    if b[end] != 0:
                        raise WireError("R-EPATH-PAD", "non-zero pad after symbol")
                    end += 1
                try:
                    segs.append(("symbol", name.decode("ascii")))
                except UnicodeDecodeError:
                    raise WireError("R-EPATH-SYM", "non-ascii symbol")
                i = end
            elif s == 0x80:
                if i + 2 > n:
                    raise WireError("R-EPATH-TRUNC", "data segment truncated")
                words = b[i + 1]
                end = i + 2 + 2 * words
                if end > n:
                    raise WireError("R-EPATH-TRUNC", "data segment truncated")
                segs.append(("data", bytes(b[i + 2:end])))
                i = end
            else:
                raise WireError("R-EPATH-SEG", f"unknown data segment 0x{s:02x}")
        elif typ == 0b000:          # port segment
            ext = bool(s & 0x10)
            port = s & 0x0F
            j = i + 1
            if port == 0:
                raise WireError("R-EPATH-PORT", "port 0 is reserved")
            if ext:
                if j >= n:
                    raise WireError("R-EPATH-TRUNC", "port segment truncated")
                lsize = b[j]
                j += 1
            if port == 15:
                if j + 2 > n:
                    raise WireError("R-EPATH-TRUNC", "extended port truncated")
                port = int.from_bytes(b[j:j + 2], "little")
                j += 2
            if ext:
                if j + lsize > n:
                    raise WireError("R-EPATH-TRUNC", "extended link truncated")
                link = bytes(b[j:j + lsize])
                j += lsize
                if (j - i) % 2:
                    if j >= n:
                        raise WireError("R-EPATH-PAD", "missing pad after extended link")
                    if b[j] != 0:
                        raise WireError("R-EPATH-PAD", "non-zero pad after extended link")
                    j += 1
            else:
                if j >= n:
                    raise WireError("R-EPATH-TRUNC", "port segment truncated")
                link = b[j]
                j += 1
            segs.append(("port", port, link))
            i = j
        else:
            raise WireError("R-EPATH-SEG", f"unexpected segment type in 0x{s:02x}")
    return segs


def enc_logical(kind, value):
    t = {v: k for k, v in LOGICAL_TYPES.items()}[kind]
    if value <= 0xFF:
        return bytes([0x20 | t << 2, value])
    if value <= 0xFFFF:
        return bytes([0x20 | t << 2 | 1, 0]) + struct.pack("<H", value)
    return bytes([0x20 | t << 2 | 2, 0]) + struct.pack("<I", value)


def enc_symbol(name):
    b = name.encode("ascii")
    return bytes([0x91, len(b)]) + b + (b"\x00" if len(b) % 2 else b"")


def enc_port(port, link):
    """independent port-segment encoder (link: int slot or str dotted quad / bytes)"""
    if isinstance(link, int):
        return bytes([port, link])
    lb = link.encode("ascii") if isinstance(link, str) else bytes(link)
    out = bytes([port | 0x10, len(lb)]) + lb
    if len(out) % 2:
        out += b"\x00"
    return out


# --------------------------------------------------------------------------
# encapsulation (CIP Vol 2 ch. 2)
ENCAP_CMDS = {0x0063: "list_identity", 0x0065: "register_session", 0x0066: "unregister_session",
              0x006F: "send_rr_data", 0x0070: "send_unit_data", 0x0004: "list_services",
              0x0064: "list_interfaces", 0x0000: "nop"}


def parse_encap_header(b):
    cmd, length, session, status = struct.unpack_from("<HHII", b, 0)
    context = bytes(b[12:20])
    options = struct.unpack_from("<I", b, 20)[0]
    return cmd, length, session, status, context, options


def build_encap(cmd, session, status, context, body=b"", options=0):
    return struct.pack("<HHII", cmd, len(body), session, status) + context + struct.pack("<I", options) + body


def parse_cpf(body):
    """-> (interface, timeout, [(type, data), ...]); strict lengths (R-CPF-ITEMS)"""
    if len(body) < 8:
        raise WireError("R-CPF-ITEMS", "common packet shorter than 8 bytes")
    iface, tmo, count = struct.unpack_from("<IHH", body, 0)
    i = 8
    items = []
    for _ in range(count):
        if i + 4 > len(body):
            raise WireError("R-CPF-ITEMS", "item header truncated")
        t, ln = struct.unpack_from("<HH", body, i)
        i += 4
        if i + ln > len(body):
            raise WireError("R-CPF-ITEMS", f"item 0x{t:04x} length {ln} exceeds body")
        items.append((t, bytes(body[i:i + ln])))
        i += ln
    if i != len(body):
        raise WireError("R-CPF-ITEMS", f"{len(body) - i} trailing bytes after last item")
    return iface, tmo, items


def build_cpf(items, iface=0, tmo=0):
    out = struct.pack("<IHH", iface, tmo, len(items))
    for t, d in items:
        out += struct.pack("<HH", t, len(d)) + d
    return out


# --------------------------------------------------------------------------
# message router (CIP Vol 1 2-4)
class MRRequest:
    __slots__ = ("service", "path_bytes", "path", "data", "path_error")

    def __init__(self, service, path_bytes, path, data, path_error=None):
        self.service = service
        self.path_bytes = path_bytes
        self.path = path
        self.data = data
        self.path_error = path_error


def parse_mr_request(b):
    """service, path size in words, path, data.  Path well-formedness errors are
    recorded (path_error) rather than raised, so the caller can both report the
    monitor hit and answer with a path error like a device would."""
    if len(b) < 2:
        raise WireError("R-MR-SHORT", "message router request shorter than 2 bytes")
    service = b[0]
    words = b[1]
    end = 2 + 2 * words
    if end > len(b):
        raise WireError("R-MR-PATHSIZE", f"path size {words} words exceeds request ({len(b)} bytes)")
    pb = bytes(b[2:end])
    try:
        path = parse_padded_epath(pb)
        err = None
    except WireError as e:
        path = None
        err = e
    return MRRequest(service, pb, path, bytes(b[end:]), err)


def build_mr_reply(service, status, data=b"", ext=()):
    """reply service | 0x80, reserved, general status, ext size (words), ext words, data"""
    out = bytes([service | 0x80, 0, status & 0xFF, len(ext)])
    for w in ext:
        out += struct.pack("<H", w & 0xFFFF)
    return out + data


# general status codes used by the targets (CIP Vol 1 App. B)
ST_OK = 0x00
ST_CONN_FAIL = 0x01
ST_RESOURCE = 0x02
ST_PATH_SEG = 0x04
ST_PATH_DEST = 0x05
ST_PARTIAL = 0x06
ST_SVC_UNSUP = 0x08
ST_ATTR_LIST = 0x0A
ST_NOT_ENOUGH = 0x13
ST_TOO_MUCH = 0x15
ST_OBJ_NOT_EXIST = 0x16
ST_REPLY_TOO_BIG = 0x11
ST_INVALID_PARAM = 0x20
ST_GENERAL = 0xFF
EXT_TYPE_MISMATCH = 0x2107
EXT_BEYOND_END = 0x2105
EXT_OFFSET = 0x2104
