"""Batch runner: seeded search over scenarios in worker processes, merge in seed order,
determinism sampling, signature handling, minimisation, replay files, evidence."""
import faulthandler
import hashlib
import importlib
import json
import multiprocessing
import os
import sys
import time
import traceback
from concurrent.futures import ProcessPoolExecutor, as_completed

from .kernel import derive_seed, HarnessError

VERIF_DIR = os.path.dirname(os.path.dirname(os.path.abspath(__file__)))

ENGINE_NAMES = ("sockframe", "lifecycle", "logix", "replyfault", "generic", "slc")


def engine(name):
    return importlib.import_module("simcip.engines." + name)


def run_scenario(sc):
    return engine(sc["engine"]).run(sc)


def sig_of(hit):
    """canonical signature: property, oracle and the oracle's closed-vocabulary features"""
    return {"property": hit["property"], "oracle": hit["oracle"], "features": hit["features"]}


def sig_key(sig):
    return json.dumps(sig, sort_keys=True, default=str)


def shape_key(shape):
    return hashlib.sha256(repr(shape).encode()).hexdigest()[:16]


def jsonable(o):
    if isinstance(o, (bytes, bytearray)):
        return {"__hex__": bytes(o).hex()}
    if isinstance(o, tuple):
        return [jsonable(x) for x in o]
    if isinstance(o, list):
        return [jsonable(x) for x in o]
    if isinstance(o, dict):
        return {str(k): jsonable(v) for k, v in o.items()}
    if isinstance(o, (str, int, float, bool)) or o is None:
        return o
    return repr(o)


def unjson(o):
    if isinstance(o, dict):
        if set(o) == {"__hex__"}:
            return bytes.fromhex(o["__hex__"])
        return {k: unjson(v) for k, v in o.items()}
    if isinstance(o, list):
        return [unjson(x) for x in o]
    return o


# ---------------------------------------------------------------------------
def _worker(task):
    """task: dict(engine, prop, tier, kind 'gen'|'list', seeds|scenarios, det_every)"""
    faulthandler.enable()
    faulthandler.dump_traceback_later(task.get("watchdog_s", 600), exit=True)
    eng = engine(task["engine"])
    prop = task["prop"]
    out = {"n": 0, "shapes": {}, "probes": {}, "faults": {}, "frames": 0, "calls": 0, "vtime_us": 0,
           "evals": 0, "hits": [], "incidental": {}, "det_checked": 0, "det_mismatch": [],
           "errors": [], "samples": [], "nontrivial": 0, "wall": 0.0}
    t0 = time.time()
    per_sig = {}
    if task["kind"] == "gen":
        items = [(s, None) for s in task["seeds"]]
    else:
        items = []
        for sc in task["scenarios"]:
            if sc.get("_expand"):
                try:
                    items += [(None, x) for x in eng.expand(sc)]
                except Exception:
                    out["errors"].append(traceback.format_exc()[-1500:])
            else:
                items.append((None, sc))
    det_every = task.get("det_every", 50)
    for idx, (seed, sc) in enumerate(items):
        if time.time() > task.get("deadline", 1e18):
            out["cut"] = len(items) - idx
            break
        try:
            if sc is None:
                sc = eng.gen(seed, task["tier"], prop) if task.get("gen_takes_prop") else eng.gen(seed, task["tier"])
            res = eng.run(sc)
            if det_every and idx % det_every == 0:
                res2 = eng.run(sc)
                out["det_checked"] += 1
                if res2["digest"] != res["digest"]:
                    out["det_mismatch"].append(jsonable(sc))
        except HarnessError as e:
            out["errors"].append(f"HarnessError: {e}")
            continue
        except (KeyboardInterrupt, SystemExit):
            raise
        except BaseException:
            tb = traceback.format_exc()[-1500:]
            try:
                # keep the scenario: a harness error has to be reproducible like a violation
                d = os.environ.get("VERIF_REPLAY_DIR") or os.path.join(VERIF_DIR, "replays")
                os.makedirs(d, exist_ok=True)
                name = f"harness-error-{prop}-{hashlib.sha256(tb.encode()).hexdigest()[:8]}.json"
                with open(os.path.join(d, name), "w") as f:
                    json.dump({"property": prop, "harness_error": tb, "scenario": jsonable(sc) if sc is not None else None,
                               "engine": task["engine"], "seed": seed}, f, default=str)
                tb += f"\n(scenario kept in {os.path.join(d, name)})"
            except Exception:  # noqa
                pass
            out["errors"].append(tb)
            continue
        out["n"] += 1
        out["frames"] += res.get("frames", 0)
        out["calls"] += res.get("calls", 0)
        out["vtime_us"] += res.get("vtime_us", 0)
        out["evals"] += res.get("evals", {}).get(prop, 0)
        for k, v in res.get("probes", {}).items():
            out["probes"][k] = out["probes"].get(k, 0) + v
        for k, v in res.get("faults", {}).items():
            out["faults"][k] = out["faults"].get(k, 0) + v
        if res.get("evals", {}).get(prop, 0) > 0 and res.get("nontrivial", True):
            out["nontrivial"] += 1
            sk = shape_key(res["shape"])
            out["shapes"][sk] = out["shapes"].get(sk, 0) + 1
        if len(out["samples"]) < 2 and res.get("evals", {}).get(prop, 0) > 0:
            out["samples"].append(jsonable(eng.sample(sc)))
        for h in res["hits"]:
            if h["property"] != prop:
                out["incidental"][h["property"]] = out["incidental"].get(h["property"], 0) + 1
                continue
            k = sig_key(sig_of(h))
            if per_sig.get(k, 0) < 2:
                per_sig[k] = per_sig.get(k, 0) + 1
                out["hits"].append({"sig": sig_of(h), "hit": jsonable(h), "scenario": jsonable(sc)})
            else:
                per_sig[k] += 1
        if time.time() - t0 > task.get("budget_s", 1e9):
            break
    out["sig_counts"] = per_sig
    out["wall"] = time.time() - t0
    faulthandler.cancel_dump_traceback_later()
    return out


def run_tasks(tasks, workers=None, timeout_s=3600):
    """run tasks in a fork pool; results in task order; a dead/timed-out worker is a HarnessError"""
    workers = workers or min(16, os.cpu_count() or 1)
    if os.environ.get("VERIF_WORKERS"):
        workers = int(os.environ["VERIF_WORKERS"])
    results = [None] * len(tasks)
    if workers <= 1 or len(tasks) <= 1:
        for i, t in enumerate(tasks):
            results[i] = _worker(t)
        return results
    ctx = multiprocessing.get_context("fork")
    with ProcessPoolExecutor(max_workers=workers, mp_context=ctx) as ex:
        futs = {ex.submit(_worker, t): i for i, t in enumerate(tasks)}
        try:
            for f in as_completed(futs, timeout=timeout_s):
                results[futs[f]] = f.result()
        except Exception as e:
            for f in futs:
                f.cancel()
            done = [r for r in results if r is not None]
            if any(r["hits"] for r in done):
                # violations found by the tasks that did finish stand (their replay files re-run in a fresh
                # process); the unfinished tasks are reported, not silently dropped
                for p in list(getattr(ex, "_processes", {}).values()):
                    try:
                        p.kill()
                    except Exception:  # noqa
                        pass
                blank = _blank()
                blank["errors"].append(f"worker pool: {type(e).__name__}: {e} - {len(results) - len(done)} task(s) unfinished")
                return [r if r is not None else dict(blank) for r in results]
            raise HarnessError(f"worker pool failed: {type(e).__name__}: {e}")
    return results


def _blank():
    return {"n": 0, "shapes": {}, "probes": {}, "faults": {}, "frames": 0, "calls": 0, "vtime_us": 0,
            "evals": 0, "hits": [], "incidental": {}, "det_checked": 0, "det_mismatch": [],
            "errors": [], "samples": [], "nontrivial": 0, "wall": 0.0, "sig_counts": {}}


def merge(results):
    tot = {"n": 0, "shapes": {}, "probes": {}, "faults": {}, "frames": 0, "calls": 0, "vtime_us": 0,
           "evals": 0, "hits": [], "incidental": {}, "det_checked": 0, "det_mismatch": [],
           "errors": [], "samples": [], "nontrivial": 0, "wall": 0.0, "sig_counts": {}}
    for r in results:
        if r is None:
            raise HarnessError("missing worker result")
        for k in ("n", "frames", "calls", "vtime_us", "evals", "det_checked", "nontrivial", "wall"):
            tot[k] += r[k]
        tot["cut"] = tot.get("cut", 0) + r.get("cut", 0)
        for d in ("shapes", "probes", "faults", "incidental", "sig_counts"):
            for k, v in r[d].items():
                tot[d][k] = tot[d].get(k, 0) + v
        tot["hits"] += r["hits"]
        tot["det_mismatch"] += r["det_mismatch"]
        tot["errors"] += r["errors"]
        if len(tot["samples"]) < 4:
            tot["samples"] += r["samples"][:1]
    return tot


# ---------------------------------------------------------------------------
def minimise(sc, want_key, max_runs=300, max_s=30.0):
    """greedy structural shrinking: accept a candidate iff a hit with the same signature persists"""
    eng = engine(sc["engine"])
    t0 = time.time()
    runs = 0
    cur = sc
    improved = True
    while improved and runs < max_runs and time.time() - t0 < max_s:
        improved = False
        for cand in eng.shrink_candidates(cur):
            if runs >= max_runs or time.time() - t0 > max_s:
                break
            runs += 1
            try:
                res = eng.run(cand)
            except Exception:
                continue
            if any(sig_key(sig_of(h)) == want_key for h in res["hits"]):
                cur = cand
                improved = True
                break
    return cur, runs


def repo_fingerprint():
    import subprocess
    repo = os.environ.get("VERIF_REPO", "/repo")
    try:
        head = subprocess.run(["git", "-C", repo, "rev-parse", "HEAD"], capture_output=True, text=True,
                              timeout=20).stdout.strip()
        diff = subprocess.run(["git", "-C", repo, "diff", "HEAD", "--", "pycomm3"], capture_output=True,
                              timeout=20).stdout
        return {"head": head, "dirty": hashlib.sha256(diff).hexdigest()[:12] if diff else None}
    except Exception:
        return {"head": None, "dirty": None}


def write_replay(prop, sig, hit, sc, orig_sc, seed, shrink_runs):
    sc2 = dict(unjson(sc))
    sc2["_keep_events"] = True
    res = run_scenario(sc2)
    sc2.pop("_keep_events", None)
    k = sig_key(sig)
    h8 = hashlib.sha256(k.encode()).hexdigest()[:8]
    path = os.path.join(os.environ.get("VERIF_REPLAY_DIR") or os.path.join(VERIF_DIR, "replays"), f"{prop}-{h8}-{seed}.json")
    os.makedirs(os.path.dirname(path), exist_ok=True)
    mine = [h for h in res["hits"] if sig_key(sig_of(h)) == k]
    def size_of(x):
        x = unjson(x)
        ops = x.get("ops", [])
        return {"ops": len(ops), "requests": sum(len(o.get("reqs", o.get("addrs", []))) for o in ops),
                "faults": len(x.get("faults", []) or []),
                "tags": len((x.get("world", {}).get("project") or {}).get("tags", []))}
    doc = {"property": prop, "signature": sig, "violation": jsonable(mine[0] if mine else hit),
           "size_before_minimisation": size_of(orig_sc), "size_after_minimisation": size_of(sc2),
           "scenario": jsonable(sc2), "original_seed": seed, "shrink_runs": shrink_runs,
           "digest": res["digest"], "repo": repo_fingerprint(),
           "trace": jsonable((res.get("events") or [])[-400:])}
    with open(path, "w") as f:
        json.dump(doc, f, indent=1, sort_keys=True, default=str)
    return path


def replay(path):
    """-> (exit code, text)"""
    doc = json.load(open(path))
    sc = unjson(doc["scenario"])
    want = sig_key(doc["signature"])
    res = run_scenario(sc)
    same_sig = any(sig_key(jsonable(sig_of(h))) == want for h in res["hits"])
    same_digest = res["digest"] == doc["digest"]
    if same_sig:
        note = "event-log digest identical to the recorded run" if same_digest else \
            "event-log digest differs from the recorded run (the code under test changed since it was recorded)"
        return 1, f"VIOLATION property={doc['property']} replay={path}\n  {note}"
    return 0, f"replay {path}: the recorded violation does not occur on this tree (property held on the replayed scenario)"
