"""Seeded generation of tag requests (ASTs), write values and planted-invalid requests."""
import struct

from .wire import ATOMIC_BY_NAME, INT_RANGES
from .refmodel import render

INTS = ("SINT", "INT", "DINT", "LINT", "USINT", "UINT", "UDINT", "ULINT")


def f32(x):
    return struct.unpack("<f", struct.pack("<f", x))[0]


def gen_value(r, ref, tname, long_strings=0.0):
    """a value in the domain of one element of tname"""
    if tname in INT_RANGES:
        lo, hi = INT_RANGES[tname]
        c = r.random()
        if c < 0.25:
            return r.choice((lo, hi, 0, 1, -1 if lo < 0 else 2, lo + 1, hi - 1))
        if c < 0.5:
            return r.randint(max(lo, -200), min(hi, 200))
        return r.randint(lo, hi)
    if tname == "BOOL":
        return r.random() < 0.5
    if tname == "REAL":
        c = r.random()
        if c < 0.15:
            return r.choice((0.0, -0.0, 1.5, -2.25, 3.4028234663852886e38, 1.401298464324817e-45, float("inf")))
        return f32(r.uniform(-1e9, 1e9))
    if tname == "LREAL":
        c = r.random()
        if c < 0.15:
            return r.choice((0.0, 1.5, -2.25, 1.7976931348623157e308, 5e-324, float("-inf")))
        return r.uniform(-1e12, 1e12)
    if tname == "DWORD":
        return [r.random() < 0.5 for _ in range(32)]
    td = ref.types[tname]
    if td.get("string_cap") is not None:
        cap = td["string_cap"]
        c = r.random()
        if c < long_strings:
            n = cap + r.choice((1, 2, 8, 50))
        elif c < long_strings + 0.25:
            n = cap
        elif c < long_strings + 0.35:
            n = 0
        else:
            n = r.randint(0, cap)
        if r.random() < 0.85:
            return "".join(chr(r.randrange(32, 127)) for _ in range(n))
        return "".join(chr(r.randrange(1, 256)) for _ in range(n))
    out = {}
    for m in td["members"]:
        if m["hidden"]:
            continue
        if m["type"] == "BOOL" and m.get("bit") is not None:
            out[m["name"]] = r.random() < 0.5
        elif m["type"] == "DWORD" and m.get("array"):
            out[m["name"]] = [r.random() < 0.5 for _ in range(32 * m["array"])]
        elif m.get("array"):
            out[m["name"]] = [gen_value(r, ref, m["type"]) for _ in range(m["array"])]
        else:
            out[m["name"]] = gen_value(r, ref, m["type"])
    return out


def usable_tags(ref, for_write):
    out = []
    for key, t in ref.tags.items():
        if t.get("kind", "user") != "user":
            continue
        acc = t.get("access", 0)
        if acc == 3 or (for_write and acc != 0):
            continue
        out.append(t)
    out.sort(key=lambda t: (t.get("scope") or "", t["name"]))
    return out


def _n(dims):
    n = 1
    for d in dims:
        n *= d
    return n


def _rand_idx(r, dims):
    return [r.randrange(d) for d in dims]


def _lin(dims, idx):
    lin = 0
    for d, x in zip(dims, idx):
        lin = lin * d + x
    return lin


def gen_request(r, ref, tag, for_write, feat=None):
    """-> AST for a valid request on `tag` (None if nothing sensible)"""
    feat = feat or {}
    req = {"scope": tag.get("scope"), "tag": tag["name"], "idx": None, "path": [], "bit": None, "count": None}
    cur = tag["type"]
    dims = list(tag.get("dims") or ())
    holder = req            # dict that receives "idx"
    depth = 0
    while True:
        if cur == "DWORD" and dims:
            bits = 32 * _n(dims)
            c = r.random()
            if for_write:
                if c < 0.5:
                    holder["idx"] = [r.randrange(bits)]
                else:
                    nd = r.randint(1, _n(dims))
                    start = r.randrange(0, _n(dims) - nd + 1)
                    holder["idx"] = [32 * start] if (start or r.random() < 0.5) else None
                    req["count"] = 32 * nd
            else:
                if c < 0.35:
                    holder["idx"] = [r.randrange(bits)]
                else:
                    i = r.randrange(bits)
                    n = r.randint(2, max(2, bits - i)) if bits - i >= 2 else None
                    if n is None:
                        holder["idx"] = [i]
                    else:
                        holder["idx"] = [i] if (i or r.random() < 0.6) else None
                        req["count"] = n
            return req
        is_struct = cur in ref.types and ref.types[cur].get("string_cap") is None
        descend = is_struct and depth < 3 and r.random() < feat.get("p_descend", 0.5)
        if dims:
            if descend or r.random() < 0.65:
                holder["idx"] = _rand_idx(r, dims)
        if descend:
            td = ref.types[cur]
            vis = [m for m in td["members"] if not m["hidden"]]
            if not vis:
                descend = False
            else:
                m = r.choice(vis)
                step = {"m": m["name"], "idx": None}
                req["path"].append(step)
                holder = step
                depth += 1
                if m["type"] == "BOOL" and m.get("bit") is not None:
                    return req
                cur = m["type"]
                dims = [m["array"]] if m.get("array") else []
                continue
        # terminal
        if dims:
            lin = _lin(dims, holder["idx"]) if holder.get("idx") is not None else 0
            remaining = _n(dims) - lin
            c = r.random()
            if remaining >= 2 and c < 0.55:
                maxn = remaining
                if feat.get("max_count"):
                    maxn = min(maxn, feat["max_count"])
                if maxn >= 2:
                    req["count"] = r.choice((2, maxn, r.randint(2, maxn)))
            elif c < 0.6:
                req["count"] = 1
        scalar_ctx = (not dims) or holder.get("idx") is not None
        if cur in INTS and req["count"] is None and scalar_ctx and r.random() < feat.get("p_bit", 0.15):
            req["bit"] = r.randrange(8 * ATOMIC_BY_NAME[cur][1])
        return req


def value_for(r, ref, req, long_strings=0.0):
    a = ref.resolve(req)
    cnt = req.get("count")
    if a["boolarr"]:
        if cnt is None or cnt == 1:
            return r.random() < 0.5
        extra = r.choice((0, 0, 0, 32))
        if r.random() < 0.15:
            # truth values given as numbers: any non-zero number sets the bit
            return [r.choice((0, 0, 1, 1, 2, 255, True, False)) for _ in range(cnt + extra)]
        return [r.random() < 0.5 for _ in range(cnt + extra)]
    if a["bitmember"] is not None or req.get("bit") is not None:
        return r.random() < 0.5
    if r.random() < 0.04 and a["type"] != "BOOL":
        # the value given as raw bytes of exactly the addressed size
        n = cnt if cnt is not None else 1
        cons = []
        for k in range(n):
            ref.constraints_for_value(a["type"], k * ref.esize(a["type"]), gen_value(r, ref, a["type"]), cons)
        buf = bytearray(n * ref.esize(a["type"]))
        for off, data, mask in cons:
            for j, byte in enumerate(data):
                m = mask[j] if mask is not None else 0xFF
                buf[off + j] = (buf[off + j] & ~m & 0xFF) | (byte & m)
        return bytes(buf)
    if cnt is not None and cnt > 1:
        extra = r.choice((0, 0, 0, 1, 3))
        return [gen_value(r, ref, a["type"], long_strings) for _ in range(cnt + extra)]
    v = gen_value(r, ref, a["type"], long_strings)
    if cnt == 1 and r.random() < 0.5:
        return [v]
    return v


INVALID_KINDS_R = ("unknown_tag", "unknown_member", "index_oob", "count_oob", "count_absurd", "index_malformed",
                   "not_a_tag", "bit_oob", "index_huge", "member_index_bad")
INVALID_KINDS_W = ("unknown_tag", "unknown_member", "index_oob", "count_oob", "unencodable", "too_short",
                   "misaligned_bool", "count_absurd", "index_malformed", "not_a_tag", "missing_member", "bit_oob",
                   "index_huge", "unencodable_str", "member_index_bad")


def gen_invalid(r, ref, for_write):
    """-> (text, value, kind) of a request that cannot succeed, or None"""
    tags = usable_tags(ref, for_write)
    if not tags:
        return None
    kinds = INVALID_KINDS_W if for_write else INVALID_KINDS_R
    for _ in range(20):
        kind = r.choice(kinds)
        t = r.choice(tags)
        pre = f"Program:{t['scope']}." if t.get("scope") else ""
        dims = list(t.get("dims") or ())
        if kind == "unknown_tag":
            name = "Nope" + "".join(r.choice("abcxyz019") for _ in range(r.randint(1, 9)))
            if (t.get("scope"), name) in ref.tags:
                continue
            return pre + name, (1 if for_write else None), kind
        if kind == "unknown_member":
            if t["type"] in ATOMIC_BY_NAME or ref.types[t["type"]].get("string_cap") is not None:
                continue
            idx = "[" + ",".join(str(x) for x in _rand_idx(r, dims)) + "]" if dims else ""
            return pre + t["name"] + idx + ".NoSuchMember_", (1 if for_write else None), kind
        if kind == "index_oob":
            if not dims or t["type"] == "DWORD":
                continue
            idx = _rand_idx(r, dims)
            k = r.randrange(len(dims))
            idx[k] = dims[k] + r.choice((0, 1, 100))
            v = None
            if for_write:
                if t["type"] not in ATOMIC_BY_NAME:
                    continue
                v = gen_value(r, ref, t["type"])
            return pre + t["name"] + "[" + ",".join(map(str, idx)) + "]", v, kind
        if kind == "count_oob":
            if not dims or t["type"] == "DWORD" or t["type"] not in ATOMIC_BY_NAME:
                continue
            n = _n(dims) + r.choice((1, 2, 50))
            v = [gen_value(r, ref, t["type"]) for _ in range(n)] if for_write else None
            return pre + t["name"] + "{" + str(n) + "}", v, kind
        if kind == "not_a_tag":
            # strings that name no tag at all: a bare program scope, an empty name, only punctuation
            progs = sorted(ref.project.get("programs", {}))
            cands = ["Program:" + progs[0]] if progs else []
            cands += ["Program:NoSuchProgram", "", ".", "Program:", t["name"] + ".", "." + t["name"]]
            return r.choice(cands), (1 if for_write else None), kind
        if kind == "count_absurd":
            # counts no controller array can have: beyond the 16-bit element count, zero, negative
            if t["type"] not in ATOMIC_BY_NAME or t["type"] == "DWORD":
                continue
            n = r.choice((65536, 70000, 0, -1, 2**31))
            v = None
            if for_write:
                v = [gen_value(r, ref, t["type"]) for _ in range(3)]
            idx = "[" + ",".join("0" for _ in dims) + "]" if dims and r.random() < 0.5 else ""
            return pre + t["name"] + idx + "{" + str(n) + "}", v, kind
        if kind == "index_malformed":
            if not dims or t["type"] == "DWORD":
                continue
            bad = r.choice(("x", "-1", "1.5", "", "0x10"))
            idx = ["0"] * len(dims)
            idx[r.randrange(len(dims))] = bad
            v = gen_value(r, ref, t["type"]) if for_write and t["type"] in ATOMIC_BY_NAME else (1 if for_write else None)
            return pre + t["name"] + "[" + ",".join(idx) + "]", v, kind
        if kind == "bit_oob":
            # a bit number the integer does not have: .8 of a SINT, .32 / .99 of a DINT, .64 of a LINT
            if t["type"] not in INTS:
                continue
            width = 8 * ATOMIC_BY_NAME[t["type"]][1]
            b = r.choice((width, width, width + 1, 99, 64, 255, 1000))
            if b < width:
                continue
            idx = "[" + ",".join(str(x) for x in _rand_idx(r, dims)) + "]" if dims else ""
            return pre + t["name"] + idx + f".{b}", (r.random() < 0.5 if for_write else None), kind
        if kind == "index_huge":
            # an index no segment format can carry
            if not dims or t["type"] == "DWORD":
                continue
            idx = [str(x) for x in _rand_idx(r, dims)]
            idx[r.randrange(len(dims))] = str(r.choice((2**32, 2**32 + 5, 99999999999, 2**64)))
            v = gen_value(r, ref, t["type"]) if for_write and t["type"] in ATOMIC_BY_NAME else (1 if for_write else None)
            return pre + t["name"] + "[" + ",".join(idx) + "]", v, kind
        if kind == "unencodable_str":
            # a string with a character the controller's 8-bit character set does not have
            if t["type"] in ATOMIC_BY_NAME or ref.types[t["type"]].get("string_cap") is None or dims:
                continue
            cap = ref.types[t["type"]]["string_cap"]
            if cap < 1:
                continue
            bad = r.choice(("\u20ac", "\u03a9", "\u4e2d", "\U0001f600"))
            base = "".join(chr(r.randrange(32, 127)) for _ in range(r.randint(0, max(0, cap - 1))))
            k = r.randint(0, len(base))
            return pre + t["name"], base[:k] + bad + base[k:], kind
        if kind == "member_index_bad":
            # the malformed / impossible index sits in a later bracket group: tag[1].member[x]
            if t["type"] in ATOMIC_BY_NAME or ref.types[t["type"]].get("string_cap") is not None:
                continue
            ms = [m for m in ref.types[t["type"]]["members"] if not m["hidden"] and m["name"] and m.get("array")
                  and m["type"] != "DWORD"]
            if not ms:
                continue
            m = r.choice(ms)
            bad = r.choice(("x", "-1", "", "1.5", str(2**32), str(m["array"] + r.choice((0, 1, 100)))))
            idx = "[" + ",".join(str(x) for x in _rand_idx(r, dims)) + "]" if dims else ""
            v = gen_value(r, ref, m["type"]) if for_write and m["type"] in ATOMIC_BY_NAME else (1 if for_write else None)
            return pre + t["name"] + idx + "." + m["name"] + "[" + bad + "]", v, kind
        if kind == "missing_member":
            # a structure value that lacks one of the visible non-BOOL members: there is nothing to write for it
            if t["type"] in ATOMIC_BY_NAME or ref.types[t["type"]].get("string_cap") is not None or dims:
                continue
            td = ref.types[t["type"]]
            cands = [m["name"] for m in td["members"] if not m["hidden"] and m["name"]
                     and not (m["type"] == "BOOL" and m.get("bit") is not None)]
            if not cands:
                continue
            v = gen_value(r, ref, t["type"])
            v.pop(r.choice(cands))
            return pre + t["name"], v, kind
        if kind == "unencodable":
            if t["type"] not in INT_RANGES or dims:
                continue
            lo, hi = INT_RANGES[t["type"]]
            return pre + t["name"], r.choice((hi + 1, lo - 1, "text", None)), kind
        if kind == "too_short":
            if not dims or _n(dims) < 3 or t["type"] not in INT_RANGES:
                continue
            n = r.randint(3, _n(dims))
            return pre + t["name"] + "{" + str(n) + "}", [0] * (n - r.randint(1, 2)), kind
        if kind == "misaligned_bool":
            if t["type"] != "DWORD" or _n(dims) < 2:
                continue
            i = r.choice((1, 5, 31, 33))
            if i + 32 > 32 * _n(dims):
                continue
            return pre + t["name"] + f"[{i}]" + "{32}", [True] * 32, kind
    return None
