"""Reference Logix controller (no pycomm3 import).

Holds a *project* (plain data, see worldgen.py) and the memory image (bytearray per tag);
implements the symbol object (0x6B), template object (0x6C), tag services (0x4C/0x52/0x4D/
0x53/0x4E), Multiple Service Packet (0x0A on class 2), program-name object (0x64), wall-clock
object (0x8B) and identity, per Rockwell 1756-PM020 and CIP Vol 1.

Strict rules (each named; see DESIGN 3.4): R-WT-LEN, R-RMW-LEN, R-TYPE-MATCH, R-ELEM-RANGE,
R-FRAG-OFFSET, R-MSP-OFFSETS.
"""
import struct

from .device import Module
from .wire import (build_mr_reply, parse_mr_request, WireError, ATOMIC, ATOMIC_BY_NAME,
                   ST_OK, ST_PARTIAL, ST_PATH_SEG, ST_PATH_DEST, ST_SVC_UNSUP, ST_NOT_ENOUGH,
                   ST_TOO_MUCH, ST_GENERAL, ST_OBJ_NOT_EXIST, ST_INVALID_PARAM,
                   EXT_TYPE_MISMATCH, EXT_BEYOND_END, EXT_OFFSET)

ST_EMBEDDED = 0x1E
ST_PRIV = 0x0F


class Addr:
    """a resolved tag address"""
    __slots__ = ("tag", "key", "off", "type", "struct", "esize", "remaining", "bit", "is_array_ctx")

    def __repr__(self):
        return f"Addr({self.key}, off={self.off}, type={self.type}, rem={self.remaining}, bit={self.bit})"


class ResolveError(Exception):
    def __init__(self, status, ext=(), why=""):
        super().__init__(why)
        self.status = status
        self.ext = tuple(ext)
        self.why = why


class LogixController(Module):
    kind = "logix"

    def __init__(self, world, project, identity=None, choices=None):
        super().__init__(world, identity)
        self.project = project
        self.choices = dict(choices or {})
        self.types = project["types"]                 # name -> typedef
        self.types_by_id = {t["template_id"]: t for t in self.types.values()}
        self.tags = {}                                # (scope, name) -> tagdef
        self.by_instance = {}                         # controller-scope instance id -> tagdef
        self.mem = {}                                 # (scope, name) -> bytearray
        for t in project["tags"]:
            key = (t.get("scope"), t["name"])
            self.tags[key] = t
            if t.get("scope") is None:
                self.by_instance[t["instance_id"]] = t
            if t.get("kind", "user") in ("user", "module", "sys") and "type" in t:
                size = self.tag_size(t)
                init = t.get("init")
                self.mem[key] = bytearray(bytes.fromhex(init)) if init else bytearray(size)
                if len(self.mem[key]) != size:
                    raise ValueError(f"memory image of {key} has {len(self.mem[key])} bytes, expected {size}")
        self.micro800 = self.identity["product_name"].startswith("2080")
        self.firmware = self.identity["rev_major"]
        self.wallclock_us = project.get("wallclock_us", 1_600_000_000_000_000)
        self.wallclock_set_at = 0
        self._frag_rng = self.sim.stream("logix/frag")
        self._page_rng = self.sim.stream("logix/page")
        self._bool_rng = self.sim.stream("logix/bool")
        self.exec_log = []          # executed tag services: dicts (for C02/C04 oracles)
        self._last_frag_empty = False

    def reindex(self):
        """the project's symbol instance ids changed (a download): rebuild the instance index"""
        self.by_instance = {t["instance_id"]: t for t in self.project["tags"] if t.get("scope") is None}
        self.types_by_id = {t["template_id"]: t for t in self.types.values()}

    # ---- sizes ----------------------------------------------------------
    def elem_size(self, tname):
        if tname in ATOMIC_BY_NAME:
            return ATOMIC_BY_NAME[tname][1]
        return self.types[tname]["size"]

    def n_elems(self, dims):
        n = 1
        for d in dims or ():
            n *= d
        return n

    def tag_size(self, t):
        return self.elem_size(t["type"]) * self.n_elems(t.get("dims"))

    # ---- capacity policies ------------------------------------------------
    def frag_cap(self, maxbytes, esize=1):
        """how many data bytes this reply carries (1..maxbytes)"""
        pol = self.choices.get("frag", "max")
        if maxbytes <= 1:
            return max(maxbytes, 0)
        if pol == "max":
            n = maxbytes
            if esize > 1 and n >= esize:
                n -= n % esize          # a controller returns whole elements
            return n
        if isinstance(pol, int):
            return max(1, min(maxbytes, pol))
        r = self._frag_rng
        if pol == "random":
            return r.randint(max(1, maxbytes // 16), maxbytes)
        if pol == "mixed":
            c = r.random()
            if c < 0.4:
                n = maxbytes
                if esize > 1 and n >= esize:
                    n -= n % esize
                return n
            if c < 0.5 and maxbytes <= 400:
                return min(maxbytes, r.choice((1, 2, 3, 5, 7)))
            return r.randint(max(1, maxbytes // 8), maxbytes)
        return maxbytes

    # ---- path resolution --------------------------------------------------
    def resolve(self, path):
        """path (parsed EPATH segments) -> Addr ; raises ResolveError"""
        i = 0
        scope = None
        n = len(path)
        tag = None
        if path[0][0] == "symbol":
            name = path[0][1]
            if name.startswith("Program:"):
                scope = name[len("Program:"):]
                if scope not in self.project.get("programs", {}):
                    raise ResolveError(ST_PATH_DEST, why=f"no program {scope}")
                i = 1
                if i >= n or path[i][0] != "symbol":
                    raise ResolveError(ST_PATH_DEST, why="program scope without tag name")
                name = path[i][1]
            tag = self._find_tag(scope, name)
            i += 1
        elif path[0][:3] == ("logical", "class", 0x6B):
            if self.micro800 or self.firmware < 21:
                # C09: towards a controller that has no symbol-instance addressing such a path denotes nothing; which
                # addressing a controller takes is known from its identity before the first tag request
                self.world.hits.hit("C09", "path.denotes", f"symbol-instance path {path} sent to a controller without "
                                    f"symbol-instance addressing (firmware {self.firmware}, micro800={self.micro800})",
                                    kind="instance_unsupported", rw="?", unresolved=True)
                raise ResolveError(ST_PATH_DEST, why="symbol instance addressing not supported")
            if n < 2 or path[1][:2] != ("logical", "instance"):
                raise ResolveError(ST_PATH_SEG, why="class 0x6B without instance")
            tag = self.by_instance.get(path[1][2])
            if tag is None or tag.get("kind", "user") not in ("user", "module", "sys") or "type" not in tag:
                raise ResolveError(ST_PATH_DEST, why=f"no symbol instance {path[1][2]}")
            i = 2
        else:
            raise ResolveError(ST_PATH_DEST, why="unsupported path start")
        a = Addr()
        a.tag = tag
        a.key = (tag.get("scope"), tag["name"])
        a.off = 0
        a.bit = None
        cur_type = tag["type"]
        dims = list(tag.get("dims") or ())
        while True:
            # element segments
            idx = []
            while i < n and path[i][:2] == ("logical", "member"):
                idx.append(path[i][2])
                i += 1
            esize = self.elem_size(cur_type)
            if idx:
                if not dims or len(idx) != len(dims):
                    raise ResolveError(ST_GENERAL, (EXT_BEYOND_END,), why=f"{len(idx)} indices on {len(dims)} dims")
                lin = 0
                for d, x in zip(dims, idx):
                    if x >= d:
                        raise ResolveError(ST_GENERAL, (EXT_BEYOND_END,), why=f"index {x} >= {d}")
                    lin = lin * d + x
                a.off += lin * esize
                remaining = self.n_elems(dims) - lin
                is_arr = True
            else:
                remaining = self.n_elems(dims) if dims else 1
                is_arr = bool(dims)
            if i >= n:
                break
            if path[i][0] != "symbol":
                raise ResolveError(ST_PATH_SEG, why=f"unexpected segment {path[i]}")
            if dims and not idx:
                # member of an array without index: element 0 (Logix accepts this)
                pass
            mname = path[i][1]
            i += 1
            td = self.types.get(cur_type)
            if td is None:
                raise ResolveError(ST_PATH_DEST, why=f"{cur_type} has no members")
            m = None
            for mm in td["members"]:
                if mm["name"] == mname:
                    m = mm
                    break
            if m is None:
                raise ResolveError(ST_PATH_DEST, why=f"no member {mname} in {cur_type}")
            a.off += m["offset"]
            if m["type"] == "BOOL" and m.get("bit") is not None:
                if i < n:
                    raise ResolveError(ST_PATH_SEG, why="segments after BOOL member")
                a.type = "BOOL"
                a.struct = False
                a.esize = 1
                a.remaining = 1
                a.bit = m["bit"]
                a.is_array_ctx = False
                return a
            cur_type = m["type"]
            dims = [m["array"]] if m.get("array") else []
        a.type = cur_type
        a.struct = cur_type not in ATOMIC_BY_NAME
        a.esize = self.elem_size(cur_type)
        a.remaining = remaining
        a.is_array_ctx = is_arr
        return a

    def _find_tag(self, scope, name):
        t = self.tags.get((scope, name))
        if t is None or "type" not in t or t.get("kind", "user") not in ("user", "module", "sys"):
            raise ResolveError(ST_PATH_DEST, why=f"no tag {scope}:{name}")
        return t

    # ---- request dispatch -------------------------------------------------
    def handle_other(self, req, ctx, cls, inst, attr):
        svc = req.service
        if cls == 0x02 and inst == 1 and svc == 0x0A:
            return self.multi_service(req, ctx)
        if cls == 0x6B and svc == 0x55:
            return self.symbol_list(req, ctx, None)
        if cls == 0x6C:
            return self.template_object(req, ctx, inst)
        if cls == 0x64 and inst == 1:
            return self.program_name(req, ctx)
        if cls == 0x8B and inst == 1:
            return self.wall_clock(req, ctx)
        if req.path[0][0] == "symbol" and svc == 0x55:
            # Program:<name> + class 0x6B + instance
            name = req.path[0][1]
            rest = req.path[1:]
            if name.startswith("Program:") and len(rest) >= 1 and rest[0][:3] == ("logical", "class", 0x6B):
                return self.symbol_list(req, ctx, name[len("Program:"):])
            return build_mr_reply(svc, ST_PATH_DEST)
        if svc in (0x4C, 0x52, 0x4D, 0x53, 0x4E) and (req.path[0][0] == "symbol" or cls == 0x6B):
            return self.tag_service(req, ctx)
        return super().handle_other(req, ctx, cls, inst, attr)

    # ---- tag services -----------------------------------------------------
    def type_prefix(self, a):
        if a.struct:
            return b"\xA0\x02" + struct.pack("<H", self.types[a.type]["handle"])
        return struct.pack("<H", ATOMIC_BY_NAME[a.type][0])

    def tag_service(self, req, ctx, embedded=False, room=None):
        svc = req.service
        world = self.world
        rec = world.log(kind="tag_service", service=svc, path=req.path, path_bytes=req.path_bytes,
                        data_len=len(req.data), embedded=embedded, transport=ctx.get("transport"))
        try:
            a = self.resolve(req.path)
        except ResolveError as e:
            rec["status"] = e.status
            rec["why"] = e.why
            return build_mr_reply(svc, e.status, ext=e.ext)
        rec["addr"] = (a.key, a.off, a.type, a.bit)
        inj = self.take_injection("tag_service", service=svc, key=[a.key[0], a.key[1]])
        if inj is not None:
            rec["injected"] = inj["status"]
            rec["status"] = inj["status"]
            return build_mr_reply(svc, inj["status"], inj.get("data", b""), inj.get("ext", ()))
        if room is None:
            room = ctx.get("max_reply", 504) - 4
        try:
            if svc == 0x4C:
                st, ext, data = self.svc_read(a, req.data, room, rec, fragmented=False)
            elif svc == 0x52:
                st, ext, data = self.svc_read(a, req.data, room, rec, fragmented=True)
            elif svc == 0x4D:
                st, ext, data = self.svc_write(a, req.data, rec, fragmented=False)
            elif svc == 0x53:
                st, ext, data = self.svc_write(a, req.data, rec, fragmented=True)
            else:
                st, ext, data = self.svc_rmw(a, req.data, rec)
        except ResolveError as e:
            st, ext, data = e.status, e.ext, b""
            rec["why"] = e.why
        rec["status"] = st
        return build_mr_reply(svc, st, data, ext)

    def svc_read(self, a, data, room, rec, fragmented):
        need = 6 if fragmented else 2
        if len(data) < need:
            raise ResolveError(ST_NOT_ENOUGH, why="read request data too short")
        if len(data) > need:
            raise ResolveError(ST_TOO_MUCH, why="read request data too long")
        n = struct.unpack_from("<H", data, 0)[0]
        offset = struct.unpack_from("<I", data, 2)[0] if fragmented else 0
        rec.update(elements=n, offset=offset)
        if n == 0:
            raise ResolveError(ST_INVALID_PARAM, why="zero elements")
        if n > a.remaining:
            raise ResolveError(ST_GENERAL, (EXT_BEYOND_END,), why=f"{n} elements > {a.remaining} remaining")
        prefix = self.type_prefix(a)
        mem = self.mem[a.key]
        if a.bit is not None:           # BOOL member of a structure
            v = bool(mem[a.off] >> a.bit & 1)
            tv = b"\xFF" if self._bool_rng.random() < 0.7 else b"\x01"
            total = tv if v else b"\x00"
        else:
            total = bytes(mem[a.off:a.off + n * a.esize])
            if a.type == "BOOL":
                total = bytes(0xFF if x else 0 for x in total)
        if offset > len(total) or (offset == len(total) and fragmented and offset > 0):
            raise ResolveError(ST_GENERAL, (EXT_BEYOND_END,), why=f"offset {offset} beyond {len(total)}")
        avail = room - len(prefix)
        rest = total[offset:]
        rec["total"] = len(total)
        if avail <= 0:
            rec["returned"] = 0
            return ST_PARTIAL, (), prefix
        if fragmented:
            k = self.frag_cap(min(avail, len(rest)), a.esize)
            if len(rest) <= avail and self.choices.get("frag", "max") == "max":
                k = len(rest)
            # "any fragment length the target chooses": occasionally a partial reply that carries the type only
            if self.choices.get("frag") in ("mixed", "random") and len(rest) > 0 and not self._last_frag_empty \
                    and self._frag_rng.random() < 0.04:
                k = 0
                self.sim.probe("read_fragment_empty")
            self._last_frag_empty = k == 0
        else:
            k = min(avail, len(rest))
            if k < len(rest) and a.esize > 1:
                k -= k % a.esize
        rec["returned"] = k
        self.exec_log.append({"op": self.world.hits.cur_op, "svc": "read_frag" if fragmented else "read",
                              "key": a.key, "off": a.off, "n": n, "offset": offset, "len": k,
                              "total": len(total), "path": rec["path_bytes"]})
        if k < len(rest):
            if fragmented:
                self.sim.probe("read_fragment_partial")
            else:
                self.sim.probe("read_unfragmented_partial")
            return ST_PARTIAL, (), prefix + rest[:k]
        return ST_OK, (), prefix + rest[:k]

    def svc_write(self, a, data, rec, fragmented):
        tlen = 4 if data[:1] == b"\xA0" else 2
        hdr = tlen + 2 + (4 if fragmented else 0)
        if len(data) < hdr:
            raise ResolveError(ST_NOT_ENOUGH, why="write request header too short")
        tfield = data[:tlen]
        n = struct.unpack_from("<H", data, tlen)[0]
        offset = struct.unpack_from("<I", data, tlen + 2)[0] if fragmented else 0
        payload = data[hdr:]
        rec.update(elements=n, offset=offset, payload_len=len(payload), type_field=bytes(tfield))
        if tfield != self.type_prefix(a):
            raise ResolveError(ST_GENERAL, (EXT_TYPE_MISMATCH,), why=f"type field {tfield.hex()} != {self.type_prefix(a).hex()}")
        if n == 0:
            raise ResolveError(ST_INVALID_PARAM, why="zero elements")
        if n > a.remaining:
            raise ResolveError(ST_GENERAL, (EXT_BEYOND_END,), why=f"{n} elements > {a.remaining}")
        if self.tag_access(a.tag) != 0:
            raise ResolveError(ST_PRIV, why="external access forbids writing")
        mem = self.mem[a.key]
        total = 1 if a.bit is not None else n * a.esize
        if not fragmented:
            if len(payload) < total:
                rec["rule"] = "R-WT-LEN"
                raise ResolveError(ST_NOT_ENOUGH, why=f"R-WT-LEN: {len(payload)} data bytes for {total}")
            if len(payload) > total:
                rec["rule"] = "R-WT-LEN"
                raise ResolveError(ST_TOO_MUCH, why=f"R-WT-LEN: {len(payload)} data bytes for {total}")
        else:
            if offset > total or offset + len(payload) > total:
                rec["rule"] = "R-FRAG-OFFSET"
                raise ResolveError(ST_GENERAL, (EXT_OFFSET,), why=f"R-FRAG-OFFSET: {offset}+{len(payload)} > {total}")
            if len(payload) == 0:
                raise ResolveError(ST_NOT_ENOUGH, why="empty fragment")
        if a.bit is not None:
            if payload != b"\x00":
                mem[a.off] |= 1 << a.bit
            else:
                mem[a.off] &= ~(1 << a.bit) & 0xFF
        else:
            if a.type == "BOOL":
                payload = bytes(1 if x else 0 for x in payload)
            mem[a.off + offset:a.off + offset + len(payload)] = payload
        self.exec_log.append({"op": self.world.hits.cur_op, "svc": "write_frag" if fragmented else "write",
                              "key": a.key, "off": a.off, "n": n, "offset": offset, "len": len(payload),
                              "total": total, "bit": a.bit, "path": rec["path_bytes"]})
        return ST_OK, (), b""

    def svc_rmw(self, a, data, rec):
        if len(data) < 2:
            raise ResolveError(ST_NOT_ENOUGH, why="rmw without mask size")
        size = struct.unpack_from("<H", data, 0)[0]
        rec.update(mask_size=size, payload_len=len(data) - 2)
        if a.struct or a.bit is not None or a.type in ("REAL", "LREAL", "BOOL"):
            raise ResolveError(ST_GENERAL, (EXT_TYPE_MISMATCH,), why=f"rmw on {a.type}")
        if len(data) - 2 < 2 * size:
            rec["rule"] = "R-RMW-LEN"
            raise ResolveError(ST_NOT_ENOUGH, why=f"R-RMW-LEN: {len(data) - 2} mask bytes for size {size}")
        if len(data) - 2 > 2 * size:
            rec["rule"] = "R-RMW-LEN"
            raise ResolveError(ST_TOO_MUCH, why=f"R-RMW-LEN: {len(data) - 2} mask bytes for size {size}")
        if size != a.esize:
            rec["rule"] = "R-RMW-LEN"
            raise ResolveError(ST_GENERAL, (EXT_TYPE_MISMATCH,), why=f"R-RMW-LEN: mask size {size} for {a.type}")
        if self.tag_access(a.tag) != 0:
            raise ResolveError(ST_PRIV, why="external access forbids writing")
        orm = int.from_bytes(data[2:2 + size], "little")
        andm = int.from_bytes(data[2 + size:2 + 2 * size], "little")
        mem = self.mem[a.key]
        v = int.from_bytes(mem[a.off:a.off + size], "little")
        v = (v | orm) & andm
        mem[a.off:a.off + size] = v.to_bytes(size, "little")
        self.exec_log.append({"op": self.world.hits.cur_op, "svc": "rmw", "key": a.key, "off": a.off,
                              "size": size, "or": orm, "and": andm, "path": rec["path_bytes"]})
        return ST_OK, (), b""

    def tag_access(self, t):
        return t.get("access", 0)

    # ---- multiple service packet ------------------------------------------
    def multi_service(self, req, ctx):
        svc = req.service
        world = self.world
        d = req.data
        rec = world.log(kind="multi_service", data_len=len(d))
        if self.micro800:
            return build_mr_reply(svc, ST_SVC_UNSUP)
        inj = self.take_injection("multi_service")
        if inj is not None and "raw" in inj:
            return inj["raw"]
        if inj is not None:
            return build_mr_reply(svc, inj["status"], inj.get("data", b""), inj.get("ext", ()))
        if len(d) < 2:
            return build_mr_reply(svc, ST_NOT_ENOUGH)
        count = struct.unpack_from("<H", d, 0)[0]
        rec["count"] = count
        if count == 0 or len(d) < 2 + 2 * count:
            return build_mr_reply(svc, ST_NOT_ENOUGH)
        offs = list(struct.unpack_from("<%dH" % count, d, 2))
        if offs[0] != 2 + 2 * count or any(b <= a for a, b in zip(offs, offs[1:])) or offs[-1] >= len(d):
            world.hits.hit("C11", "frame.mr", f"multiple service packet offsets {offs[:6]} inconsistent with "
                           f"count {count} / length {len(d)}", rules=["R-MSP-OFFSETS"], what="msp_offsets")
            return build_mr_reply(svc, ST_INVALID_PARAM)
        room_total = ctx.get("max_reply", 504) - 4 - 2 - 2 * count
        replies = []
        any_err = False
        full_size = 4 + 2 + 2 * count      # faithful (unclipped) reply size, for C04 (b)
        all_reads = True
        for i in range(count):
            chunk = d[offs[i]:offs[i + 1] if i + 1 < count else len(d)]
            try:
                sub = parse_mr_request(chunk)
            except WireError as e:
                rep = build_mr_reply(chunk[0] if chunk else 0, ST_PATH_SEG)
                replies.append(rep)
                any_err = True
                room_total -= len(rep)
                full_size += len(rep)
                continue
            if sub.path_error is not None:
                world.hits.hit("C09", "path.wellformed", str(sub.path_error), rules=[sub.path_error.rule],
                               rule=sub.path_error.rule, where="multi_service")
                rep = build_mr_reply(sub.service, ST_PATH_SEG)
            elif sub.service in (0x4C, 0x52, 0x4D, 0x53, 0x4E) and sub.path and \
                    (sub.path[0][0] == "symbol" or sub.path[0][:3] == ("logical", "class", 0x6B)):
                if sub.service not in (0x4C, 0x52):
                    all_reads = False
                # faithful size of this embedded reply
                room = max(room_total - 4, 0)
                rep = self.tag_service(sub, ctx, embedded=True, room=room)
                last = world.oplog[-1] if world.oplog and world.oplog[-1].get("kind") == "tag_service" else None
                if sub.service in (0x4C, 0x52) and last is not None and "total" in last:
                    full_size += 4 + len(self.type_prefix_for(last)) + (last["total"] - last.get("offset", 0))
                else:
                    full_size += len(rep)
            else:
                all_reads = False
                rep = self.mr_dispatch(sub, dict(ctx, embedded=True))
                full_size += len(rep)
            if rep[2] != 0:
                any_err = True
            replies.append(rep)
            room_total -= len(rep)
        rec["faithful_reply"] = full_size + 2
        t2o = ctx["conn"].t2o_size if ctx.get("conn") is not None else None
        if t2o is not None and all_reads and full_size + 2 > t2o:
            world.hits.hit("C04", "size.reply", f"multi-service read solicits a reply of {full_size + 2} bytes on a "
                           f"connection negotiated for {t2o}", rules=["R-CONN-SIZE"], cs=t2o,
                           over_class=("<=8" if full_size + 2 - t2o <= 8 else ">8"))
        out = struct.pack("<H", count)
        off = 2 + 2 * count
        for r in replies:
            out += struct.pack("<H", off)
            off += len(r)
        out += b"".join(replies)
        return build_mr_reply(svc, ST_EMBEDDED if any_err else ST_OK, out)

    def type_prefix_for(self, rec):
        key, off, tname, bit = rec["addr"]
        return b"\xA0\x02\x00\x00" if tname not in ATOMIC_BY_NAME else b"\x00\x00"

    # ---- symbol object ----------------------------------------------------
    def symbols_in_scope(self, scope):
        out = [t for t in self.project["tags"] if t.get("scope") == scope]
        out.sort(key=lambda t: t["instance_id"])
        return out

    def symbol_type_word(self, t):
        if "symbol_type" in t:
            return t["symbol_type"]
        dims = len(t.get("dims") or ())
        tn = t["type"]
        if tn in ATOMIC_BY_NAME:
            w = ATOMIC_BY_NAME[tn][0]
            if tn == "BOOL":
                w |= (t.get("bit_position", 0) & 7) << 8
        else:
            w = 0x8000 | self.types[tn]["template_id"]
        w |= dims << 13
        if t.get("system"):
            w |= 0x1000
        return w

    def symbol_list(self, req, ctx, scope):
        svc = req.service
        world = self.world
        rec = world.log(kind="symbol_list", scope=scope, path=req.path)
        if scope is not None and scope not in self.project.get("programs", {}):
            return build_mr_reply(svc, ST_PATH_DEST)
        inst_seg = [s for s in req.path if s[:2] == ("logical", "instance")]
        start = inst_seg[0][2] if inst_seg else 0
        tail = [s for s in req.path if s[0] != "symbol"]
        if not (len(tail) == 2 and tail[0][:3] == ("logical", "class", 0x6B) and tail[1][:2] == ("logical", "instance")
                and len(req.path) - len(tail) == (1 if scope is not None else 0)):
            world.hits.hit("C09", "path.denotes", f"symbol-list request path {req.path} is not [Program symbol,] class 0x6B, "
                           f"instance N", kind="symbol_list", rw="r", unresolved=False)
            return build_mr_reply(svc, ST_PATH_SEG)
        d = req.data
        if len(d) < 2:
            return build_mr_reply(svc, ST_NOT_ENOUGH)
        nattr = struct.unpack_from("<H", d, 0)[0]
        if len(d) != 2 + 2 * nattr:
            return build_mr_reply(svc, ST_NOT_ENOUGH if len(d) < 2 + 2 * nattr else ST_TOO_MUCH)
        attrs = struct.unpack_from("<%dH" % nattr, d, 2)
        rec.update(start=start, attrs=list(attrs))
        inj = self.take_injection("symbol_list", scope=scope)
        if inj is not None:
            return build_mr_reply(svc, inj["status"], inj.get("data", b""), inj.get("ext", ()))
        if 10 in attrs and self.firmware < 18:
            return build_mr_reply(svc, 0x0A)
        room = ctx.get("max_reply", 504) - 4
        syms = [t for t in self.symbols_in_scope(scope) if t["instance_id"] >= start]
        pol = self.choices.get("page", "max")
        out = b""
        n_put = 0
        if pol == "max":
            limit = None
        elif isinstance(pol, int):
            limit = pol
        else:
            limit = self._page_rng.choice((1, 1, 2, 3, 5, 8, None))
        for t in syms:
            r = struct.pack("<I", t["instance_id"])
            for at in attrs:
                if at == 1:
                    nm = t["name"].encode("latin-1")
                    r += struct.pack("<H", len(nm)) + nm
                elif at == 2:
                    r += struct.pack("<H", self.symbol_type_word(t))
                elif at == 3:
                    r += struct.pack("<I", t.get("symbol_address", 0))
                elif at == 5:
                    r += struct.pack("<I", t.get("symbol_object_address", 0))
                elif at == 6:
                    r += struct.pack("<I", t.get("software_control", (0 if t.get("alias") else 1 << 26)))
                elif at == 7:
                    r += struct.pack("<H", self.elem_size(t["type"]) if "type" in t else 0)
                elif at == 8:
                    dd = list(t.get("dims") or ()) + [0, 0, 0]
                    r += struct.pack("<III", *dd[:3])
                elif at == 10:
                    r += bytes([t.get("access", 0)])
                else:
                    return build_mr_reply(svc, 0x0A)
            if len(out) + len(r) > room or (limit is not None and n_put >= limit):
                if n_put == 0 and len(out) + len(r) > room:
                    return build_mr_reply(svc, 0x11)
                rec["returned"] = n_put
                self.sim.probe("symbol_list_partial")
                return build_mr_reply(svc, ST_PARTIAL, out)
            out += r
            n_put += 1
        rec["returned"] = n_put
        return build_mr_reply(svc, ST_OK, out)

    # ---- template object --------------------------------------------------
    def template_definition(self, td):
        """member records + 'Name;...\\0' + member names (1756-PM020 ch. 'Template Object')"""
        recs = b""
        for m in td["members"]:
            if m["type"] == "BOOL" and m.get("bit") is not None:
                info = m["bit"]
                tw = 0xC1
            else:
                info = m.get("array") or 0
                if m["type"] in ATOMIC_BY_NAME:
                    tw = ATOMIC_BY_NAME[m["type"]][0]
                else:
                    tw = 0x8000 | self.types[m["type"]]["template_id"]
                if m.get("array") and td.get("dim_flag", True):
                    tw |= 0x2000
            recs += struct.pack("<HHI", info, tw, m["offset"])
        if td.get("name_in_members"):
            names = b""       # predefined style: the type name is the first 'member name'
            names += td.get("wire_name", td["name"]).encode("latin-1") + b"\x00"
        else:
            names = (td.get("wire_name", td["name"]) + ";" + td.get("name_suffix", "n")).encode("latin-1") + b"\x00"
        for m in td["members"]:
            names += m["name"].encode("latin-1") + b"\x00"
        return recs + names

    def template_object(self, req, ctx, inst):
        svc = req.service
        world = self.world
        td = self.types_by_id.get(inst)
        rec = world.log(kind="template", service=svc, inst=inst)
        if td is None:
            return build_mr_reply(svc, ST_PATH_DEST)
        inj = self.take_injection("template", service=svc)
        if inj is not None:
            return build_mr_reply(svc, inj["status"], inj.get("data", b""), inj.get("ext", ()))
        definition = self.template_definition(td)
        L = len(definition)
        if svc == 0x03:
            d = req.data
            if len(d) < 2:
                return build_mr_reply(svc, ST_NOT_ENOUGH)
            n = struct.unpack_from("<H", d, 0)[0]
            if len(d) != 2 + 2 * n:
                return build_mr_reply(svc, ST_NOT_ENOUGH if len(d) < 2 + 2 * n else ST_TOO_MUCH)
            out = struct.pack("<H", n)
            for at in struct.unpack_from("<%dH" % n, d, 2):
                if at == 4:
                    out += struct.pack("<HHI", 4, 0, (L + 23 + 3) // 4)
                elif at == 5:
                    out += struct.pack("<HHI", 5, 0, td["size"])
                elif at == 2:
                    out += struct.pack("<HHH", 2, 0, len(td["members"]))
                elif at == 1:
                    out += struct.pack("<HHH", 1, 0, td["handle"])
                else:
                    out += struct.pack("<HH", at, 0x14)
            return build_mr_reply(svc, ST_OK, out)
        if svc == 0x4C:
            d = req.data
            if len(d) != 6:
                return build_mr_reply(svc, ST_NOT_ENOUGH if len(d) < 6 else ST_TOO_MUCH)
            off, ln = struct.unpack("<IH", d)
            rec.update(offset=off, length=ln)
            if off > L:
                return build_mr_reply(svc, ST_GENERAL, ext=(EXT_BEYOND_END,))
            want = min(ln, L - off)
            room = ctx.get("max_reply", 504) - 4
            k = self.frag_cap(min(want, room), 1)
            if self.choices.get("frag", "max") == "max":
                k = min(want, room)
            self.exec_log.append({"op": world.hits.cur_op, "svc": "template_read", "inst": inst,
                                  "offset": off, "len": k, "total": L})
            if k < want:
                self.sim.probe("template_fragment_partial")
                if off + k < 8 * len(td["members"]) and (off + k) % 8:
                    self.sim.probe("template_cut_inside_member_record")
                return build_mr_reply(svc, ST_PARTIAL, definition[off:off + k])
            return build_mr_reply(svc, ST_OK, definition[off:off + k])
        return build_mr_reply(svc, ST_SVC_UNSUP)

    # ---- misc objects -----------------------------------------------------
    def program_name(self, req, ctx):
        self.world.log(kind="mr", module=self.kind, service=req.service, cls=0x64, inst=1, attr=None,
                       data=req.data, transport=ctx.get("transport"))
        inj = self.take_injection("program_name")
        if inj is not None:
            return build_mr_reply(req.service, inj["status"], inj.get("data", b""), inj.get("ext", ()))
        if self.micro800:
            return build_mr_reply(req.service, ST_PATH_DEST)
        if req.service != 0x01:
            return build_mr_reply(req.service, ST_SVC_UNSUP)
        nm = self.project.get("name", "PLC").encode("latin-1")
        return build_mr_reply(req.service, ST_OK, struct.pack("<H", len(nm)) + nm)

    def now_wallclock(self):
        return (self.wallclock_us + (self.sim.now_us - self.wallclock_set_at)) & (2**64 - 1)

    def wall_clock(self, req, ctx):
        d = req.data
        self.world.log(kind="mr", module=self.kind, service=req.service, cls=0x8B, inst=1, attr=None,
                       data=d, transport=ctx.get("transport"))
        inj = self.take_injection("wall_clock", service=req.service)
        if inj is not None:
            return build_mr_reply(req.service, inj["status"], inj.get("data", b""), inj.get("ext", ()))
        if req.service == 0x03:
            if len(d) < 2:
                return build_mr_reply(req.service, ST_NOT_ENOUGH)
            n = struct.unpack_from("<H", d, 0)[0]
            if len(d) != 2 + 2 * n:
                return build_mr_reply(req.service, ST_NOT_ENOUGH if len(d) < 2 + 2 * n else ST_TOO_MUCH)
            out = struct.pack("<H", n)
            for at in struct.unpack_from("<%dH" % n, d, 2):
                if at in (6, 11):
                    out += struct.pack("<HHQ", at, 0, self.now_wallclock())
                else:
                    out += struct.pack("<HH", at, 0x14)
            return build_mr_reply(req.service, ST_OK, out)
        if req.service == 0x04:
            if len(d) < 2:
                return build_mr_reply(req.service, ST_NOT_ENOUGH)
            n = struct.unpack_from("<H", d, 0)[0]
            i = 2
            out = struct.pack("<H", n)
            for _ in range(n):
                if i + 2 > len(d):
                    return build_mr_reply(req.service, ST_NOT_ENOUGH)
                at = struct.unpack_from("<H", d, i)[0]
                i += 2
                if at == 6:
                    if i + 8 > len(d):
                        return build_mr_reply(req.service, ST_NOT_ENOUGH)
                    self.wallclock_us = struct.unpack_from("<Q", d, i)[0]
                    self.wallclock_set_at = self.sim.now_us
                    i += 8
                    out += struct.pack("<HH", at, 0)
                else:
                    return build_mr_reply(req.service, 0x0A, out + struct.pack("<HH", at, 0x14))
            if i != len(d):
                return build_mr_reply(req.service, ST_TOO_MUCH)
            return build_mr_reply(req.service, ST_OK, out)
        return build_mr_reply(req.service, ST_SVC_UNSUP)
