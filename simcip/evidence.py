"""evidence/<id>.json writer (schema: /root/.vp/EVIDENCE.schema.json); all counts measured."""
import json
import os

# VERIF_EVIDENCE_DIR: used by the mutant runners so that runs against scratch copies never overwrite real evidence
DIR = os.environ.get("VERIF_EVIDENCE_DIR") or os.path.join(os.path.dirname(os.path.dirname(os.path.abspath(__file__))), "evidence")


def write(prop, tier, seed, plan, tot, wall, n_viol, violations, known_lines):
    os.makedirs(DIR, exist_ok=True)
    runs_per_h = int(tot["n"] / wall * 3600) if wall > 0 else 0
    cov = {
        "evaluations": tot["n"],
        "distinct_nontrivial": len(tot["shapes"]),
        "rule": plan["rule"],
        "samples": tot["samples"][:4] or [{"note": "no sample"}],
        "oracle_evaluations": tot["evals"],
        "nontrivial_runs": tot["nontrivial"],
        "runs_per_hour": runs_per_h,
        "simulated_time_s": round(tot["vtime_us"] / 1e6, 3),
        "frames_handled_by_targets": tot["frames"],
        "api_calls": tot["calls"],
        "faults_fired": dict(sorted(tot["faults"].items())),
        "reach_probes": dict(sorted(tot["probes"].items())),
        "probes_stuck_at_zero": sorted(p for p in plan.get("want_probes", []) if not tot["probes"].get(p)),
        "determinism_double_runs": tot["det_checked"],
        "planned_runs_not_started_before_the_wall_clock_budget": tot.get("cut", 0),
        "incidental_hits_other_properties": dict(sorted(tot["incidental"].items())),
        "components_real": plan.get("real", []),
        "components_stub": plan.get("stub", []),
        "violation_signatures": violations,
        "known_findings_seen": known_lines,
        "exhaustive": False,
    }
    doc = {"property_id": prop, "tier": tier, "seed": int(seed), "level": plan["level"], "coverage": cov,
           "assumptions": plan.get("assumptions", []), "wall_s": round(wall, 2), "violations": n_viol}
    path = os.path.join(DIR, prop + ".json")
    with open(path, "w") as f:
        json.dump(doc, f, indent=1, sort_keys=True, default=str)
    return path
