"""Seeded generator of controller projects (plain JSON-able data) and memory images.

Layout follows the controller's own rules (members aligned to their size, BOOL members
packed 8 to a hidden SINT host named ZZZZZZZZZZ<udt><n>, structures 4-byte aligned - 8 when
they contain 64-bit members -, structure size a multiple of 4, strings = DINT LEN +
SINT[cap] DATA, template ids 0x100-0xEFF for user types, BOOL arrays as DWORD arrays).
"""
import struct

from .wire import ATOMIC_BY_NAME

ATOMS = ["SINT", "INT", "DINT", "LINT", "USINT", "UINT", "UDINT", "ULINT", "REAL", "LREAL", "BOOL"]
INT_ATOMS = ["SINT", "INT", "DINT", "LINT", "USINT", "UINT", "UDINT", "ULINT"]
RESERVED = set(ATOMS) | {"DWORD", "WORD", "BYTE", "LWORD", "STRING", "BIT", "PROGRAM", "ROUTINE", "TASK", "MAP", "CXN"}
NAME_CHARS = "ABCDEFGHIJKLMNOPQRSTUVWXYZabcdefghijklmnopqrstuvwxyz0123456789_"


def rand_name(r, used, lo=1, hi=18, prefix=""):
    while True:
        n = r.randint(lo, hi)
        first = r.choice(NAME_CHARS[:52])
        if not prefix and n > 1 and r.random() < 0.06:
            first = "_"             # a single leading underscore is a legal user name
        s = prefix + first + "".join(r.choice(NAME_CHARS) for _ in range(n - 1))
        if s.endswith("_") or "__" in s or s.upper().startswith("ZZZZZZZZZZ"):
            continue
        # names that the library's tag-list filter keys on must not appear by accident
        if s.lower() in used or s.upper() in ("CTL", "CONTROL", "LEN", "DATA"):
            continue
        # the names of the elementary types are reserved words of the controller: no tag, member or type is called INT
        if s.upper() in RESERVED:
            continue
        # ".<digits>" is bit syntax; a member called e.g. "5" cannot exist anyway (starts with letter)
        used.add(s.lower())
        return s


def _prod(xs):
    n = 1
    for x in xs:
        n *= x
    return n


def align(x, a):
    return (x + a - 1) // a * a


def type_align(project, tname):
    if tname in ATOMIC_BY_NAME:
        return ATOMIC_BY_NAME[tname][1]
    return project["types"][tname]["align"]


def type_size(project, tname):
    if tname in ATOMIC_BY_NAME:
        return ATOMIC_BY_NAME[tname][1]
    return project["types"][tname]["size"]


def make_string_type(project, r, name, cap, template_id, handle):
    size = align(4 + cap, 4)
    td = {"name": name, "template_id": template_id, "handle": handle, "size": size, "align": 4,
          "string_cap": cap, "predefined": template_id < 0x100 or template_id > 0xEFF,
          "members": [{"name": "LEN", "type": "DINT", "array": 0, "offset": 0, "bit": None, "hidden": False},
                      {"name": "DATA", "type": "SINT", "array": cap, "offset": 4, "bit": None, "hidden": False}]}
    project["types"][name] = td
    return td


def make_udt(project, r, name, template_id, handle, feat, depth):
    """random UDT from the already-defined types (nesting <= depth)"""
    members = []
    used = set()
    off = 0
    maxal = 4
    nmem = r.randint(1, feat.get("max_members", 7))
    host = None        # [member dict, next free bit]
    nhost = 0
    cands = [a for a in ATOMS if a in feat["atoms"]]
    nestable = [t for t, d in project["types"].items() if d.get("depth", 0) < depth]
    for _ in range(nmem):
        c = r.random()
        if c < 0.25 and "BOOL" in feat["atoms"]:
            # BOOL member in a hidden host
            if host is None or host[1] >= 8:
                hname = f"ZZZZZZZZZZ{name[:10]}{nhost}"
                nhost += 1
                hm = {"name": hname, "type": "SINT", "array": 0, "offset": off, "bit": None, "hidden": True}
                members.append(hm)
                host = [hm, 0]
                off += 1
            members.append({"name": rand_name(r, used, 1, 12), "type": "BOOL", "array": 0,
                            "offset": host[0]["offset"], "bit": host[1], "hidden": False})
            host[1] += 1
            continue
        host = None
        if c < 0.40 and nestable and feat.get("nest", True):
            t = r.choice(nestable)
        elif c < 0.46 and feat.get("bool_arrays", True):
            t = "DWORD"
        else:
            t = r.choice([a for a in cands if a != "BOOL"] or ["DINT"])
        arr = 0
        if t == "DWORD":
            arr = r.randint(1, 3)
        elif r.random() < 0.3 and feat.get("member_arrays", True):
            arr = r.randint(1, feat.get("max_member_array", 6))
        while arr > 1 and type_size(project, t) * arr > 8192:
            arr //= 2           # keep a single structure below ~8 kB per member (nested types multiply quickly)
        al = type_align(project, t)
        maxal = max(maxal, al)
        off = align(off, al)
        hidden = False
        mname = rand_name(r, used, 1, 12)
        c2 = r.random()
        if c2 < 0.05:
            mname = "__" + mname
            hidden = True
        elif c2 < 0.09 and feat.get("unnamed_members", True):
            mname = ""              # unnamed internal member (seen in add-on instruction templates)
            hidden = True
        elif c2 < 0.13 and not ({"ctl", "control"} & used):
            # the names of the control words of the built-in types (TIMER.CTL, ...): internal in a template of the
            # predefined range, an ordinary visible member in a user-defined type
            mname = r.choice(("CTL", "Control"))
            used.add(mname.lower())
            hidden = template_id < 0x100 or template_id > 0xEFF
        members.append({"name": mname, "type": t, "array": arr, "offset": off, "bit": None, "hidden": hidden})
        off += type_size(project, t) * (arr or 1)
        if r.random() < 0.08 and feat.get("gaps", False):
            off += r.choice((1, 2, 4))       # unusual-but-legal gap
    size = align(max(off, 1), 8 if maxal == 8 else 4)
    d = 1 + max([project["types"][m["type"]].get("depth", 0) for m in members if m["type"] in project["types"]] or [0])
    td = {"name": name, "template_id": template_id, "handle": handle, "size": size, "align": 8 if maxal == 8 else 4,
          "string_cap": None, "predefined": template_id < 0x100 or template_id > 0xEFF, "members": members,
          "depth": d}
    # a structure that looks like a string must not be produced by accident
    vis = [m["name"] for m in members if not m["hidden"]]
    if vis == ["LEN", "DATA"]:
        members[0]["name"] = "LEN_"
    if r.random() < feat.get("p_out_of_order", 0.0) and len(members) > 2:
        r.shuffle(td["members"])            # records need not be in offset order
    project["types"][name] = td
    return td


def rand_atomic_bytes(r, tname, n=1):
    size = ATOMIC_BY_NAME[tname][1]
    out = b""
    for _ in range(n):
        c = r.random()
        if tname == "BOOL":
            out += bytes([r.randrange(2)])
        elif tname in ("REAL", "LREAL"):
            fmt = "<f" if tname == "REAL" else "<d"
            if c < 0.1:
                pats = [0.0, -0.0, 1.0, -1.5, float("inf"), float("-inf"), 1e-40, 3.4e38, float("nan")]
                out += struct.pack(fmt, r.choice(pats))
            elif c < 0.2:
                out += bytes(r.randrange(256) for _ in range(size))     # any bit pattern
            else:
                out += struct.pack(fmt, struct.unpack("<f", struct.pack("<f", r.uniform(-1e6, 1e6)))[0])
        else:
            if c < 0.15:
                out += r.choice((b"\x00", b"\xff", b"\x80", b"\x7f", b"\x01")) * size
            elif c < 0.25:
                out += (b"\x00" * (size - 1) + b"\x80")
            else:
                out += bytes(r.randrange(256) for _ in range(size))
    return out


def rand_image(project, r, tname):
    """random bytes for one element of type tname (consistent: LEN <= cap for strings)"""
    if tname in ATOMIC_BY_NAME:
        return rand_atomic_bytes(r, tname)
    td = project["types"][tname]
    buf = bytearray(r.randrange(256) if r.random() < 0.3 else 0 for _ in range(td["size"]))
    if td.get("string_cap") is not None:
        cap = td["string_cap"]
        ln = r.choice((0, cap, r.randint(0, cap), r.randint(0, cap)))
        buf[0:4] = struct.pack("<i", ln)
        c = r.random()
        for i in range(cap):
            if i < ln:
                buf[4 + i] = r.randrange(32, 127) if c < 0.8 else r.randrange(1, 256)
            else:
                buf[4 + i] = 0 if r.random() < 0.7 else r.randrange(256)
        return bytes(buf)
    for m in td["members"]:
        if m["type"] == "BOOL" and m.get("bit") is not None:
            continue
        n = m["array"] or 1
        es = type_size(project, m["type"])
        for i in range(n):
            buf[m["offset"] + i * es:m["offset"] + (i + 1) * es] = rand_image(project, r, m["type"])
    return bytes(buf)


DEFAULT_FEAT = {
    "atoms": ATOMS, "n_types": 3, "n_strings": 1, "n_tags": 10, "max_dims": 3, "programs": 1,
    "prog_tags": 3, "bool_arrays": True, "nest": True, "depth": 2, "member_arrays": True,
    "system_symbols": True, "module_tags": True, "predefined_ids": False, "max_array": 12,
    "big": None, "gaps": False, "p_out_of_order": 0.0, "aliases": True,
}


def gen_project(r, feat=None):
    f = dict(DEFAULT_FEAT)
    if feat:
        f.update(feat)
    project = {"name": rand_name(r, set(), 1, 20), "types": {}, "tags": [], "programs": {},
               "wallclock_us": r.randrange(10**15, 2 * 10**15)}
    used_types = set()
    tids = set()
    handles = set()

    def new_tid(predef=False):
        while True:
            if predef:
                t = r.choice((r.randrange(0xF00, 0x1000), r.randrange(0x01, 0xC0), r.randrange(0xE0, 0x100)))
            else:
                t = r.choice((0x100, 0xEFF, r.randrange(0x100, 0xF00), r.randrange(0x100, 0xF00)))
            if t not in tids:
                tids.add(t)
                return t

    def new_handle():
        while True:
            h = r.randrange(1, 0x10000)
            if h not in handles:
                handles.add(h)
                return h

    # strings
    for i in range(f["n_strings"]):
        if i == 0 and r.random() < 0.6:
            make_string_type(project, r, "STRING", 82, 0xFCE, new_handle())
            tids.add(0xFCE)
            project["types"]["STRING"]["wire_name"] = "ASCIISTRING82"
            used_types.add("string")
        else:
            cap = r.choice((1, 2, 3, 4, 5, 8, 20, 40, 82, 100, 255, 480, r.randint(1, 500)))
            nm = rand_name(r, used_types, 3, 12, prefix="STR")
            make_string_type(project, r, nm, cap, new_tid(), new_handle())
    # a structure that only LOOKS like a string (LEN + DATA, but DATA is not a SINT array) must stay a structure
    if f["n_types"] and r.random() < 0.12:
        nm = rand_name(r, used_types, 2, 12)
        et = r.choice(("INT", "DINT", "USINT", "REAL"))
        n = r.randint(1, 6)
        es = ATOMIC_BY_NAME[et][1]
        off2 = 4
        size = align(off2 + es * n, 4)
        project["types"][nm] = {"name": nm, "template_id": new_tid(), "handle": new_handle(), "size": size, "align": 4,
                                "string_cap": None, "predefined": False, "depth": 1, "members": [
                                    {"name": "LEN", "type": "DINT", "array": 0, "offset": 0, "bit": None, "hidden": False},
                                    {"name": "DATA", "type": et, "array": n, "offset": off2, "bit": None, "hidden": False}]}
    # UDTs
    for i in range(f["n_types"]):
        nm = rand_name(r, used_types, 2, 16)
        predef = f["predefined_ids"] and r.random() < 0.3
        td = make_udt(project, r, nm, new_tid(predef), new_handle(), f, f["depth"])
        if predef:
            td["name_in_members"] = r.random() < 0.5
    # instance ids: ascending with gaps, crossing format boundaries
    inst = [0]

    def next_inst():
        c = r.random()
        if c < 0.08:
            inst[0] = max(inst[0] + 1, r.choice((0xFE, 0xFF, 0x100, 0xFFFE, 0xFFFF, 0x10000)))
        else:
            inst[0] += r.choice((1, 1, 1, 2, 3, 7, 40, 300))
        return inst[0]

    entries = []        # (kind, scope, builder)
    names_ctrl = set()
    progs = []
    for i in range(f["programs"]):
        progs.append(rand_name(r, names_ctrl, 1, 14))

    def user_tag(scope, used):
        nm = rand_name(r, used, 1, 24)
        c = r.random()
        types = list(project["types"])
        if c < 0.12 and f["bool_arrays"]:
            t = {"name": nm, "scope": scope, "type": "DWORD", "dims": [r.randint(1, 4)]}
        else:
            if c < 0.45 and types:
                tn = r.choice(types)
            else:
                tn = r.choice([a for a in f["atoms"]])
            dims = []
            if tn != "BOOL" and r.random() < 0.45 and f["max_dims"] > 0:
                nd = r.randint(1, f["max_dims"])
                lim = f["max_array"]
                if nd == 1:
                    dims = [r.randint(1, lim * 3)]
                elif nd == 2:
                    dims = [r.randint(1, lim), r.randint(1, max(1, lim // 2))]
                else:
                    dims = [r.randint(1, max(1, lim // 2)), r.randint(1, 4), r.randint(1, 3)]
            # keep a single tag below 64 kB so that every transfer stays within the run budgets
            es_ = type_size(project, tn)
            while dims and es_ * _prod(dims) > 65536 and max(dims) > 1:
                k = max(range(len(dims)), key=lambda i: dims[i])
                dims[k] = max(1, dims[k] // 2)
            t = {"name": nm, "scope": scope, "type": tn, "dims": dims}
        t["kind"] = "user"
        t["access"] = 0 if r.random() < 0.85 else r.choice((2, 3))
        t["alias"] = f["aliases"] and r.random() < 0.1
        t["symbol_address"] = r.randrange(2**32)
        t["symbol_object_address"] = r.randrange(2**32)
        t["software_control"] = (r.randrange(2**32) & ~(1 << 26)) | (0 if t["alias"] else 1 << 26)
        if t["type"] == "BOOL":
            t["bit_position"] = r.randrange(8)
        return t

    ctrl = []
    for i in range(f["n_tags"]):
        ctrl.append(user_tag(None, names_ctrl))
    if f.get("big"):
        # a tag whose size is near / beyond the connection size (C04)
        for spec in f["big"]:
            nm = rand_name(r, names_ctrl, spec.get("name_len", 6), spec.get("name_len", 6))
            t = {"name": nm, "scope": None, "type": spec["type"], "dims": [spec["n"]], "kind": "user", "access": 0,
                 "alias": False, "symbol_address": 0, "symbol_object_address": 0, "software_control": 1 << 26}
            ctrl.append(t)
    sysd = []
    if f["system_symbols"]:
        for p in progs:
            sysd.append({"name": "Program:" + p, "scope": None, "kind": "program", "symbol_type": 0x1068,
                         "software_control": r.randrange(2**32)})
        for _ in range(r.randint(0, 2)):
            sysd.append({"name": "Task:" + rand_name(r, names_ctrl, 1, 10), "scope": None, "kind": "task",
                         "symbol_type": 0x1070})
        for _ in range(r.randint(0, 2)):
            sysd.append({"name": r.choice(("Map:", "Cxn:")) + rand_name(r, names_ctrl, 1, 10), "scope": None,
                         "kind": "map", "symbol_type": r.choice((0x1069, 0x107E, 0x00C4))})
        for _ in range(r.randint(0, 2)):
            # other colon-prefixed system symbols; must not contain :I :O :C :S (those mark module I/O tags)
            nm = r.choice(("Trend:", "Dtl:", "Axis:", "Msg:")) + r.choice("abdefghklmnpqrtuvwxyz") + rand_name(r, names_ctrl, 1, 8)
            sysd.append({"name": nm, "scope": None, "kind": "sys", "type": "DINT", "dims": [], "access": 0,
                         "software_control": 1 << 26})
        for _ in range(r.randint(0, 2)):
            nm = "__" + rand_name(r, names_ctrl, 1, 10)
            if r.random() < 0.4:
                # the hidden connection symbols of I/O modules look like module tags after the double underscore
                nm += r.choice((":I", ":O", ":C", ":S", ":1:C", ":2:I"))
            sysd.append({"name": nm, "scope": None, "kind": "sys", "type": "DINT", "dims": [], "access": 0,
                         "software_control": 1 << 26})
        for _ in range(r.randint(0, 1)):
            nm = rand_name(r, names_ctrl, 1, 10)
            sysd.append({"name": nm, "scope": None, "kind": "sys", "type": "DINT", "dims": [], "access": 0,
                         "system": True, "software_control": 1 << 26})
    else:
        for p in progs:
            sysd.append({"name": "Program:" + p, "scope": None, "kind": "program", "symbol_type": 0x1068})
    if f["module_tags"] and project["types"]:
        for slot in range(r.randint(0, 2)):
            tn = r.choice(list(project["types"]))
            # the connection suffixes modules really have: input/output/config/status, numbered connections of
            # multi-connection devices, safety input/output; rack-less devices (drives) have no slot part
            for suffix in r.sample(["I", "O", "C", "S", "I1", "O1", "SI", "SO"], r.randint(1, 3)):
                mn = r.choice(("Local", "Rack1", "ENBT", "Drive", "Guard"))
                name = f"{mn}:{slot + 1}:{suffix}" if mn not in ("Drive",) else f"{mn}{slot + 1}:{suffix}"
                if name.lower() in names_ctrl:
                    continue
                names_ctrl.add(name.lower())
                sysd.append({"name": name, "scope": None, "kind": "module", "type": tn, "dims": [], "access": 0,
                             "alias": False, "software_control": 1 << 26})
    allc = ctrl + sysd
    r.shuffle(allc)
    for t in allc:
        t["instance_id"] = next_inst()
    project["tags"] += allc
    for p in progs:
        used = set()
        inst[0] = r.choice((0, 0, 5, 0xF0))
        ptags = []
        routines = []
        for _ in range(r.randint(0, 3)):
            rn = rand_name(r, used, 1, 12)
            routines.append(rn)
            ptags.append({"name": "Routine:" + rn, "scope": p, "kind": "routine", "symbol_type": 0x106D})
        for _ in range(f["prog_tags"]):
            ptags.append(user_tag(p, used))
        r.shuffle(ptags)
        for t in ptags:
            t["instance_id"] = next_inst()
        project["tags"] += ptags
        project["programs"][p] = {"routines": [t["name"][8:] for t in ptags if t["kind"] == "routine"]}
    # memory images
    for t in project["tags"]:
        if "type" in t:
            n = 1
            for d in t.get("dims") or ():
                n *= d
            if t["type"] == "DWORD":
                img = bytes(r.randrange(256) for _ in range(4 * n))
            elif n > 64:
                one = [rand_image(project, r, t["type"]) for _ in range(8)]
                img = b"".join(one[i % 8] if r.random() < 0.9 else rand_image(project, r, t["type"]) for i in range(n))
            else:
                img = b"".join(rand_image(project, r, t["type"]) for _ in range(n))
            t["init"] = img.hex()
    return project


def light_project(r):
    """small world for lifecycle runs"""
    return gen_project(r, {"n_types": 1, "n_strings": 0, "n_tags": 4, "programs": r.choice((0, 1)),
                           "prog_tags": 1, "system_symbols": False, "module_tags": False, "max_dims": 1,
                           "max_array": 4, "depth": 1, "max_members": 4})
