"""Simulated network: a stand-in for the `socket` module as far as pycomm3 uses it.

TCP: per connection two byte queues.  Bytes are never lost, duplicated or
reordered.  Chunking of recv, partial sends, latency and faults are decided by
the scenario's policies and fault plan, drawn from named PRNG streams.
UDP: only what CIPDriver.discover needs (broadcast, drop/dup/reorder of replies).

The simulator runs *inside* these calls: a send hands bytes to the peer, which
processes complete frames at once and queues its replies; a recv on an empty
queue jumps the virtual clock by the socket timeout and raises TimeoutError.
"""
import socket as _real_socket
from collections import deque

from .kernel import Sim, HarnessError, SimBudgetExceeded

FATAL = ("peer_fin", "peer_rst", "send_epipe", "send_rst")


class Fault:
    """One planned fault.  at = {"op": op_id or None (any), "dir": "send"|"recv"|"connect",
    "nth": k-th message of that direction within the op (0-based), "byte": offset}"""

    __slots__ = ("id", "kind", "op", "dir", "nth", "byte", "params", "fired")

    def __init__(self, d):
        self.id = d.get("id")
        self.kind = d["kind"]
        at = d.get("at", {})
        self.op = at.get("op")
        self.dir = at.get("dir", "recv")
        self.nth = at.get("nth", 0)
        self.byte = at.get("byte", 0)
        self.params = d.get("params", {})
        self.fired = False


class SimTcpConn:
    def __init__(self, net, peer_name):
        self.net = net
        self.peer_name = peer_name
        self.c2s = bytearray()      # bytes delivered to the server, not yet consumed
        self.s2c = deque()          # [frame(bytes), offset, ready_at_us, nth, op]
        self.dead = None            # None | "fin" | "rst"
        self.client_closed = False
        self.send_faulted = False
        self.server = None          # endpoint object
        self.cid = net._next_conn_id()

    # called by the endpoint
    def server_send(self, frame: bytes):
        net = self.net
        lat = net.latency_us()
        self.s2c.append([bytes(frame), 0, net.sim.now_us + lat, net._count_reply(), net.cur_op])
        net.sim.log("net", "s2c", (self.cid, len(frame)))

    def server_close(self):
        """the server closes its side (FIN after what is already queued)"""
        self.s2c.append([None, 0, self.net.sim.now_us, -1, self.net.cur_op])


class SimSocket:
    """socket.socket look-alike (TCP and UDP)."""

    def __init__(self, net, family, type_):
        self.net = net
        self.family = family
        self.type = type_
        self.timeout = None
        self.conn = None
        self.closed = False
        self.bound = None
        self._udp_q = deque()
        # per-socket send message tracking
        self._msg_left = 0
        self._msg_off = 0
        self._msg_nth = -1
        net.sockets.append(self)

    # -- options ------------------------------------------------------------
    def settimeout(self, t):
        self.timeout = t

    def setsockopt(self, *a):
        pass

    def gettimeout(self):
        return self.timeout

    def getsockopt(self, *a):
        return 0

    def setblocking(self, flag):
        self.timeout = None if flag else 0.0

    def shutdown(self, how):
        if self.closed:
            raise OSError(9, "Bad file descriptor")

    def fileno(self):
        return -1 if self.closed else 1000 + self.net.sockets.index(self)

    def getsockname(self):
        return (self.bound or self.net.local_addrs[0][1], 0)

    def getpeername(self):
        if self.conn is None:
            raise OSError(107, "Transport endpoint is not connected")
        return self.conn.peer_name

    def __enter__(self):
        return self

    def __exit__(self, *exc):
        self.close()
        return False

    def __getattr__(self, name):
        # a socket method the simulation does not know must not look like a defect of the library
        if name.startswith("_"):
            raise AttributeError(name)
        raise HarnessError(f"library reached socket.socket.{name}: not simulated")

    def bind(self, addr):
        self.bound = addr[0]

    # -- TCP ----------------------------------------------------------------
    def connect(self, addr):
        net = self.net
        sim = net.sim
        sim.charge("raw_io")
        host, port = addr
        sim.log("net", "connect", (host, port))
        f = net._match_fault("connect", 0, 0, 1)
        if f is not None:
            f.fired = True
            sim.fired(f.kind)
            if f.kind == "connect_refused":
                raise ConnectionRefusedError(111, "Connection refused")
            sim.advance(int((self.timeout or 5.0) * 1e6))
            raise TimeoutError("timed out")
        dev = net.hosts.get((host, port))
        if dev is None:
            if any(h == host for (h, _p) in net.hosts):
                raise ConnectionRefusedError(111, "Connection refused")
            sim.advance(int((self.timeout or 5.0) * 1e6))
            raise TimeoutError("timed out")
        self.conn = SimTcpConn(net, host)
        self.conn.server = dev.accept(self.conn)
        net.conns.append(self.conn)

    def send(self, data):
        net = self.net
        sim = net.sim
        if net.yield_hook is not None:
            net.yield_hook()
        sim.charge("raw_io")
        conn = self.conn
        if self.closed or conn is None:
            raise OSError(9, "Bad file descriptor")
        if conn.dead:
            if conn.dead == "rst":
                raise ConnectionResetError(104, "Connection reset by peer")
            raise BrokenPipeError(32, "Broken pipe")
        data = bytes(data)
        if self._msg_left == 0:
            self._msg_nth = net._count_send()
            self._msg_off = 0
            self._msg_left = len(data)
            net.on_client_message_start(conn, data)
        n = len(data)
        if n == 0:
            return 0
        k = net.accept_len(n)
        f = net._match_fault("send", self._msg_nth, self._msg_off, k)
        if f is not None:
            before = f.byte - self._msg_off
            if before > 0:
                k = before          # accept up to the fault point first
            else:
                f.fired = True
                sim.fired(f.kind)
                if self._msg_off > 0 or len(conn.c2s) > 0:
                    conn.send_faulted = True    # part of a frame is on the stream already: a torn frame
                if f.kind == "send_zero":
                    return 0
                if f.kind == "send_timeout":
                    sim.advance(int((self.timeout or 5.0) * 1e6))
                    self._msg_left = 0      # Socket.send gives up on this message
                    raise TimeoutError("timed out")
                if f.kind == "send_rst":
                    self._kill("rst")
                    raise ConnectionResetError(104, "Connection reset by peer")
                self._kill("fin")
                raise BrokenPipeError(32, "Broken pipe")
        if k < n:
            sim.probe("send_partial")
        self._msg_off += k
        self._msg_left = n - k
        conn.c2s += data[:k]
        sim.log("net", "c2s", (conn.cid, k))
        net.raw_sent.append(data[:k])
        if conn.server is not None:
            conn.server.on_bytes(conn)
        return k

    def sendall(self, data):
        data = bytes(data)
        sent = 0
        while sent < len(data):
            k = self.send(data[sent:])
            if k == 0:
                # a blocking sendall never returns short: a transport that takes nothing more is a dead peer
                raise BrokenPipeError(32, "Broken pipe")
            sent += k
        return None

    def recv_into(self, buf, nbytes=0):
        n = nbytes or len(buf)
        data = self.recv(n)
        buf[:len(data)] = data
        return len(data)

    def _kill(self, how):
        conn = self.conn
        if conn.dead is None:
            conn.dead = how
            conn.s2c.clear()
            self.net.sim.log("net", "conn_dead", (conn.cid, how))
            if conn.server is not None:
                conn.server.on_dead(conn)

    def recv(self, n):
        net = self.net
        sim = net.sim
        if net.yield_hook is not None:
            net.yield_hook()        # pre-emption point of the thread scheduler (two caller threads, one runs at a time)
        sim.charge("raw_io")
        if self.type == net.mod.SOCK_DGRAM:
            return self._udp_recv(n)
        conn = self.conn
        if self.closed or conn is None:
            raise OSError(9, "Bad file descriptor")
        net.on_client_recv(conn)
        if conn.dead == "rst":
            raise ConnectionResetError(104, "Connection reset by peer")
        if conn.dead == "fin":
            return b""
        tmo_us = int((self.timeout if self.timeout is not None else 3600.0) * 1e6)
        if not conn.s2c:
            sim.probe("recv_timeout_empty")
            sim.advance(tmo_us)
            sim.log("net", "recv_timeout", conn.cid)
            raise TimeoutError("timed out")
        head = conn.s2c[0]
        frame, off, ready, nth, op = head
        if frame is None:           # orderly close by the server
            conn.dead = "fin"
            return b""
        if ready > sim.now_us:
            wait = ready - sim.now_us
            if wait > tmo_us:
                sim.advance(tmo_us)
                raise TimeoutError("timed out")
            sim.advance(wait)
        avail = len(frame) - off
        k = net.chunk_len(min(n, avail), off, len(frame))
        f = net._match_fault("recv", nth, off, k, op)
        if f is not None:
            before = f.byte - off
            if before > 0:
                k = before
            else:
                f.fired = True
                sim.fired(f.kind)
                if f.kind == "stall":
                    sim.advance(tmo_us)
                    raise TimeoutError("timed out")
                if f.kind == "peer_rst":
                    self._kill("rst")
                    raise ConnectionResetError(104, "Connection reset by peer")
                self._kill("fin")
                return b""
        out = frame[off:off + k]
        head[1] = off + k
        if head[1] >= len(frame):
            conn.s2c.popleft()
        if off == 0 and k < 4:
            sim.probe("first_chunk_lt4")
        if k < avail:
            sim.probe("recv_chunked")
        sim.log("net", "recv", (conn.cid, k))
        return out

    def close(self):
        if self.closed:
            return
        self.closed = True
        sim = self.net.sim
        f = self.net._match_fault("close", 0, 0, 1)
        conn = self.conn
        if conn is not None and not conn.client_closed:
            conn.client_closed = True
            sim.log("net", "client_close", conn.cid)
            if conn.server is not None and not conn.dead:
                conn.server.on_client_close(conn)
        if f is not None:
            f.fired = True
            sim.fired(f.kind)
            raise OSError(5, "Input/output error")

    # -- UDP ----------------------------------------------------------------
    def sendto(self, data, addr):
        net = self.net
        net.sim.charge("raw_io")
        net.sim.log("net", "udp_sendto", (addr[0], addr[1], len(data)))
        net.udp_broadcast(self, bytes(data), addr)
        return len(data)

    def _udp_recv(self, n):
        sim = self.net.sim
        tmo_us = int((self.timeout if self.timeout is not None else 3600.0) * 1e6)
        if not self._udp_q:
            sim.advance(tmo_us)
            raise TimeoutError("timed out")
        ready, data = self._udp_q[0]
        if ready > sim.now_us:
            wait = ready - sim.now_us
            if wait > tmo_us:
                sim.advance(tmo_us)
                raise TimeoutError("timed out")
            sim.advance(wait)
        self._udp_q.popleft()
        return data[:n]


class SimSocketModule:
    """What `pycomm3.socket_.socket` / `pycomm3.cip_driver.socket` is replaced by."""

    AF_INET = _real_socket.AF_INET
    AF_INET6 = _real_socket.AF_INET6
    SOCK_STREAM = _real_socket.SOCK_STREAM
    SOCK_DGRAM = _real_socket.SOCK_DGRAM
    SOL_SOCKET = _real_socket.SOL_SOCKET
    SO_KEEPALIVE = _real_socket.SO_KEEPALIVE
    SO_BROADCAST = _real_socket.SO_BROADCAST
    AddressFamily = _real_socket.AddressFamily
    error = OSError
    timeout = TimeoutError
    gaierror = _real_socket.gaierror
    herror = _real_socket.herror

    def __init__(self, net):
        self._net = net

    def __getattr__(self, name):
        """constants (option names, protocol numbers, flags) and exception classes the library may use are the
        real ones; anything that would touch the real network is not available"""
        if name.startswith("_"):
            raise AttributeError(name)
        v = getattr(_real_socket, name)
        if isinstance(v, (int, str, bytes)) or (isinstance(v, type) and (issubclass(v, BaseException) or hasattr(v, "__members__"))):
            return v
        raise HarnessError(f"library reached socket.{name}: not simulated")

    def socket(self, family=_real_socket.AF_INET, type=_real_socket.SOCK_STREAM, proto=0):
        return SimSocket(self._net, family, type)

    def create_connection(self, address, timeout=None, source_address=None, **kw):
        s = self.socket(self.AF_INET, self.SOCK_STREAM)
        if timeout is not None and not isinstance(timeout, type(_real_socket._GLOBAL_DEFAULT_TIMEOUT)):
            s.settimeout(timeout)
        host = self.gethostbyname(address[0])
        s.connect((host, address[1]))
        return s

    def gethostbyname(self, host):
        net = self._net
        f = net._match_fault("dns", 0, 0, 1)
        if f is not None:
            f.fired = True
            net.sim.fired(f.kind)
            raise _real_socket.gaierror(-2, "Name or service not known")
        if host in net.dns:
            return net.dns[host]
        parts = host.split(".")
        if len(parts) == 4 and all(p.isdigit() and 0 <= int(p) <= 255 for p in parts):
            return host
        raise _real_socket.gaierror(-2, "Name or service not known")

    def gethostname(self):
        return "simhost"

    def getaddrinfo(self, host, port, *a, **k):
        out = []
        for fam, ip in self._net.local_addrs:
            family = self.AddressFamily.AF_INET if fam == 4 else self.AddressFamily.AF_INET6
            sockaddr = (ip, 0) if fam == 4 else (ip, 0, 0, 0)
            out.append((family, self.SOCK_STREAM, 6, "", sockaddr))
        return out


class SimNet:
    def __init__(self, sim: Sim, choices=None, faults=None):
        self.sim = sim
        self.mod = SimSocketModule(self)
        self.yield_hook = None     # set by a thread scheduler: called at every raw send/recv
        self.hosts = {}            # (ip, port) -> device with .accept(conn)
        self.dns = {}              # name -> ip
        self.local_addrs = [(4, "192.168.1.10")]
        self.udp_nets = {}         # local ip (or None) -> [device, ...]
        self.conns = []
        self.sockets = []
        self.raw_sent = []         # every accepted chunk, in order (C11/C12 evidence)
        self.choices = dict(choices or {})
        self.faults = [Fault(f) for f in (faults or [])]
        self.cur_op = None
        self._n_send = 0           # per-op counters
        self._n_reply = 0
        self._conn_seq = 0
        self.listeners = []        # objects with on_client_message_start / on_client_recv
        self._chunk_rng = sim.stream("net/chunk")
        self._send_rng = sim.stream("net/send")
        self._lat_rng = sim.stream("net/lat")
        self._udp_rng = sim.stream("net/udp")

    # ---- op bracketing --------------------------------------------------
    def begin_op(self, op_id):
        self.cur_op = op_id
        self._n_send = 0
        self._n_reply = 0

    def _next_conn_id(self):
        self._conn_seq += 1
        return self._conn_seq

    def _count_send(self):
        n = self._n_send
        self._n_send += 1
        return n

    def _count_reply(self):
        n = self._n_reply
        self._n_reply += 1
        return n

    # ---- listeners (byte-stream monitors) ---------------------------------
    def on_client_message_start(self, conn, data):
        for l in self.listeners:
            l.on_client_message_start(conn, data)

    def on_client_recv(self, conn):
        for l in self.listeners:
            l.on_client_recv(conn)

    # ---- policies -------------------------------------------------------
    def latency_us(self):
        pol = self.choices.get("latency", "small")
        if pol == "zero":
            return 0
        if pol == "small":
            return self._lat_rng.randrange(50, 2000)
        return self._lat_rng.randrange(50, int(pol))

    def chunk_len(self, maxn, off, total):
        """how many bytes (1..maxn) the next recv returns; off = offset into the frame"""
        pol = self.choices.get("chunk", "whole")
        if maxn <= 1 or pol == "whole":
            return maxn
        if isinstance(pol, int):
            return min(maxn, pol)
        r = self._chunk_rng
        if pol == "random":
            return r.randint(1, maxn)
        if pol == "header_split":
            if off == 0:
                return min(maxn, r.choice((1, 2, 3, 4, 5, 23, 24, 25)))
            return maxn if r.random() < 0.5 else r.randint(1, maxn)
        if pol == "last_alone":
            remaining = total - off
            if remaining > 1:
                return min(maxn, remaining - 1)
            return maxn
        if pol == "mixed":
            c = r.random()
            if c < 0.4:
                return maxn
            if c < 0.6:
                return min(maxn, r.choice((1, 2, 3, 7, 23, 24, 25, 255)))
            return r.randint(1, maxn)
        if isinstance(pol, list):     # explicit composition (E1 directed)
            idx = self.choices.setdefault("_chunk_idx", 0)
            if idx < len(pol):
                self.choices["_chunk_idx"] = idx + 1
                return max(1, min(maxn, pol[idx]))
            return maxn
        return maxn

    def accept_len(self, n):
        pol = self.choices.get("send", "all")
        if n <= 1 or pol == "all":
            return n
        if isinstance(pol, int):
            return min(n, pol)
        r = self._send_rng
        if pol == "random":
            return r.randint(1, n)
        if pol == "mixed":
            c = r.random()
            if c < 0.5:
                return n
            if c < 0.7:
                return min(n, r.choice((1, 2, 3, 23, 24, 25)))
            return r.randint(1, n)
        if isinstance(pol, list):
            idx = self.choices.setdefault("_send_idx", 0)
            if idx < len(pol):
                self.choices["_send_idx"] = idx + 1
                return max(1, min(n, pol[idx]))
            return n
        return n

    # ---- faults ---------------------------------------------------------
    def _match_fault(self, dir_, nth, off, k, op="__cur__"):
        """a not-yet-fired fault of direction dir_ whose position lies in
        [off, off+k) of message nth of the current op"""
        if not self.faults:
            return None
        if op == "__cur__":
            op = self.cur_op
        for f in self.faults:
            if f.fired or f.dir != dir_:
                continue
            if f.op is not None and f.op != op:
                continue
            if dir_ in ("connect", "dns", "close"):
                return f
            if f.nth != nth:
                continue
            if off <= f.byte < off + k:
                return f
        return None

    # ---- UDP ------------------------------------------------------------
    def udp_broadcast(self, sock, data, addr):
        devs = self.udp_nets.get(sock.bound, [])
        pol = self.choices.get("udp", {})
        r = self._udp_rng
        out = []
        for dev in devs:
            rep = dev.on_udp(data, addr)
            if rep is None:
                continue
            if pol.get("drop") and r.random() < pol["drop"]:
                self.sim.fired("udp_drop")
                continue
            delay = r.randrange(100, 300000)
            out.append((self.sim.now_us + delay, rep))
            if pol.get("dup") and r.random() < pol["dup"]:
                self.sim.fired("udp_dup")
                out.append((self.sim.now_us + r.randrange(100, 300000), rep))
        out.sort(key=lambda t: t[0])
        if pol.get("reorder") and len(out) > 1 and r.random() < pol["reorder"]:
            self.sim.fired("udp_reorder")
            times = [t for t, _ in out]
            reps = [d for _, d in out]
            r.shuffle(reps)
            out = list(zip(times, reps))
        for t, d in out:
            sock._udp_q.append((t, d))
