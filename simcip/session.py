"""Builds a simulated world + a real driver from scenario data; shared by the engines.

scenario["world"] = {
   "layout": "compact" | "clx" | "micro800",
   "ip": "10.0.0.1", "slot": controller slot (clx), "enet_slot": bridge slot (clx), "slots": n,
   "identity": {...overrides...}, "policy": {...}, "choices": {"frag","page","handles"},
   "project": {...}   (worldgen) }
scenario["net"] = {"chunk","send","latency"}
scenario["driver"] = {"cls": "LogixDriver"|"CIPDriver"|"SLCDriver", "path": str, "init_tags": bool,
                      "init_program_tags": bool, "log": "off"|"verbose", "seq_advance": int}
"""
from .kernel import Sim
from .net import SimNet
from .device import World, Module
from .logix_target import LogixController
from . import harness

ENET_IDENTITY = dict(vendor=1, product_type=12, product_code=166, rev_major=10, rev_minor=7, status=0x0030,
                     serial=0x00ABCDEF, product_name="1756-EN2T/D", state=3)


class Env:
    pass


def build(sc, budgets=None, sim=None, net=None):
    """sim/net given: a further world (another device at another address) in the same simulation"""
    env = Env()
    if sim is None:
        sim = Sim(sc["seed"], budgets=budgets or sc.get("budgets"))
        sim.keep_events = sc.get("_keep_events", False)
        net = SimNet(sim, sc.get("net", {}), sc.get("faults", []))
    w = sc["world"]
    world = World(sim, net, w.get("choices", {}))
    ip = w.get("ip", "10.0.0.1")
    layout = w.get("layout", "compact")
    ctl = None
    entry = None
    if w.get("project") is not None:
        ctl = LogixController(world, w["project"], w.get("identity"), w.get("choices", {}))
    if layout == "compact":
        ch = world.add_chassis(max(1, w.get("slots", 1)))
        ch.put(0, ctl)
        entry = ctl
    elif layout == "micro800":
        entry = ctl          # no backplane at all
    elif layout == "slc":
        from .slc_target import SlcController
        ch = world.add_chassis(1)
        entry = SlcController(world, w["table"], w.get("identity"), w.get("io_words", 4))
        ch.put(0, entry)
        ctl = None
    elif layout == "cip":
        entry = Module(world, w.get("identity"))      # a bare CIP device
        entry.kind = "cipdev"
    elif layout == "clx":
        n = w.get("slots", 4)
        ch = world.add_chassis(n)
        bridge = Module(world, dict(ENET_IDENTITY, **w.get("bridge_identity", {})))
        bridge.kind = "enet"
        ch.put(w.get("enet_slot", 1), bridge)
        if ctl is not None:
            ch.put(w.get("slot", 0), ctl)
        for s, idn in (w.get("modules") or {}).items():
            m = Module(world, idn)
            m.kind = "io"
            ch.put(int(s), m)
        entry = bridge
    elif layout == "multihop":
        # chassis A: entry bridge + a second bridge whose Ethernet port reaches chassis B's bridge by IP address
        cha = world.add_chassis(w.get("slots", 4))
        bridge = Module(world, dict(ENET_IDENTITY, **w.get("bridge_identity", {})))
        bridge.kind = "enet"
        cha.put(w.get("enet_slot", 1), bridge)
        hop = Module(world, dict(ENET_IDENTITY, serial=0x00A2A2A2))
        hop.kind = "enet"
        cha.put(w["hop_slot"], hop)
        chb = world.add_chassis(w.get("remote_slots", 4))
        rb = Module(world, dict(ENET_IDENTITY, serial=0x00B1B1B1))
        rb.kind = "enet"
        rb.ip = w["hop_ip"]
        chb.put(w.get("remote_enet_slot", 1), rb)
        hop.enet_peers = {w["hop_ip"]: rb}
        if ctl is not None:
            chb.put(w.get("slot", 0), ctl)
        for s_, idn in (w.get("modules") or {}).items():
            m = Module(world, idn)
            m.kind = "io"
            chb.put(int(s_), m)
        entry = bridge
        world.chassis = [chb, cha]      # env.chassis = the controller's chassis
    else:
        raise ValueError(layout)
    entry.policy = dict(w.get("policy", {}))
    world.expose(entry, ip, w.get("port", 44818), names=w.get("names", ()), udp_net=w.get("udp_net"))
    env.sim, env.net, env.world, env.ctl, env.entry = sim, net, world, ctl, entry
    env.chassis = world.chassis[0] if world.chassis else None
    return env


def make_driver(sc, env):
    p = harness.lib()
    d = sc["driver"]
    cls = getattr(p, d.get("cls", "LogixDriver"))
    if d.get("cls", "LogixDriver") == "LogixDriver":
        drv = cls(d["path"], init_tags=d.get("init_tags", True),
                  init_program_tags=d.get("init_program_tags", True))
    else:
        drv = cls(d["path"])
    advance_sequence(drv, d.get("seq_advance", 0))
    return drv


def advance_sequence(drv, n):
    """pre-advance the driver's real sequence generator (same as having sent n connected messages).  The
    generator is an internal of the library: if it is not there (refactored), the phase is simply not
    pre-set - the run is still valid - and the last value drawn is None."""
    seq = getattr(drv, "_sequence", None)
    v = None
    if seq is None or not hasattr(seq, "__next__"):
        # renamed: the one iterator the driver instance holds, if there is exactly one
        its = [x for x in vars(drv).values() if hasattr(x, "__next__") and not hasattr(x, "recv") and not hasattr(x, "read")]
        if len(its) != 1:
            return None
        seq = its[0]
    for _ in range(n):
        v = next(seq)
    return v


def begin_op(env, op_id):
    env.world.hits.cur_op = op_id
    env.net.begin_op(op_id)
    env.world.oplog = []
    if env.ctl is not None:
        env.ctl.exec_log = []
