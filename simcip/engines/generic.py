"""E5 - generic messaging (C14) and device identities (C16) against scripted objects in a routed
chassis; also feeds the C09 path monitors with boundary class/instance/attribute values.

ops:
  generic: {service, cls, inst, attr (int | {"hex":..} | None), data(hex), mode, route (True|False|str|
            {"segs":[[port,link],..]} | {"hex":..}), data_type (None|"DINT"|"UINT"|"STRING"|"struct"),
            where: {"slot": n} | "entry" | "target", reply: {"status","ext","data"(hex)}}
  get_plc_name | get_plc_info | get_module_info(slot) | get_plc_time | set_plc_time(us|None) | idle(us)
  list_identity | discover
"""
import copy
import datetime
import struct

from ..kernel import Sim
from .. import session, harness
from ..device import GenericObject, Module, encode_identity_attrs
from ..wire import enc_port, enc_logical

PROPS = ("C14", "C16", "C09", "C11")
GEN_TAKES_PROP = True

BOUNDARY = (0, 1, 2, 0x7F, 0xFE, 0xFF, 0x100, 0x101, 0x1234, 0xFFFE, 0xFFFF, 0x10000, 0x10001, 0xFFFFFFFF)


def val_of(x):
    """scenario value -> python argument (int or bytes)"""
    if isinstance(x, dict) and "hex" in x:
        return bytes.fromhex(x["hex"])
    return x


def num_of(x):
    if isinstance(x, dict) and "hex" in x:
        return int.from_bytes(bytes.fromhex(x["hex"]), "little")
    return x


def route_hops_of_path(path, auto_slot):
    """independent parser of the documented connection path syntax -> (host, [(port, link)])"""
    p = path.replace("\\", "/").replace(",", "/")
    host, *segs = p.split("/")
    names = {"backplane": 1, "bp": 1, "enet": 2, "dhrio-a": 2, "dhrio-b": 3, "dnet": 2, "cnet": 2, "dh485-a": 2, "dh485-b": 3}
    if not segs:
        return host, ([(1, 0)] if auto_slot else [])
    if len(segs) == 1 and auto_slot:
        return host, [(1, int(segs[0]))]
    hops = []
    for i in range(0, len(segs), 2):
        port, link = segs[i], segs[i + 1]
        port = int(port) if port.isdigit() else names[port]
        link = int(link) if link.isdigit() else link.encode()
        hops.append((port, link))
    return host, hops


def enc_route(hops):
    b = b"".join(enc_port(p, l if isinstance(l, int) else bytes(l)) for p, l in hops)
    return bytes([len(b) // 2, 0]) + b


def norm_hops(hops):
    return [(p, l if isinstance(l, int) else bytes(l)) for p, l in hops]


_PINNED = None


def pinned():
    global _PINNED
    if _PINNED is None:
        import json
        import os
        _PINNED = json.load(open(os.path.join(os.path.dirname(os.path.dirname(os.path.abspath(__file__))), "pinned_tables.json")))
    return _PINNED


def name_of(table, lib_table, code):
    """ids the pinned tree knows keep their pinned name; other ids: whatever the library's table says,
    'UNKNOWN' when it has none (the statement's fallback)"""
    pin = pinned()[table].get(str(code))
    if pin is not None:
        return pin
    return lib_table.get(code, "UNKNOWN")


def expected_identity(idn, lib):
    from pycomm3.cip.status_info import VENDORS, PRODUCT_TYPES
    return {"vendor": name_of("vendors", VENDORS, idn["vendor"]),
            "product_type": name_of("product_types", PRODUCT_TYPES, idn["product_type"]),
            "product_code": idn["product_code"],
            "revision": {"major": idn["rev_major"], "minor": idn["rev_minor"]},
            "status": struct.pack("<H", idn["status"]),
            "serial": f"{idn['serial']:08x}",
            "product_name": idn["product_name"]}


def expected_list_identity(mod, lib):
    d = expected_identity(mod.identity, lib)
    d.update({"encap_protocol_version": 1, "ip_address": mod.ip, "state": mod.identity["state"]})
    return d


def cmp_identity(got, exp, hits, api, extra_ok=()):
    if not isinstance(got, dict):
        hits.hit("C16", "identity.decode", f"{api} returned {got!r}", api=api, field="not-a-dict")
        return
    for k, v in exp.items():
        if k not in got or got[k] != v or type(got[k]) is not type(v):
            hits.hit("C16", "identity.decode", f"{api}: {k}={got.get(k)!r}, device holds {v!r}", api=api, field=k)
    # further keys are not judged (the statement lists what must be there, e.g. get_plc_info adds 'keyswitch')


def build_world(sc):
    env = session.build(sc, budgets={"vtime_us": 48 * 3600 * 10**6})
    w = sc["world"]
    for spec in w.get("objects", []):
        where = spec["where"]
        if where == "entry":
            mod = env.entry
        elif where == "target":
            mod = env.ctl if env.ctl is not None else env.entry
        else:
            mod = env.chassis.slots[where["slot"]]
        mod.generic[(spec["cls"], spec["inst"])] = GenericObject()        # (None, None) = wildcard
    # extra devices on the UDP networks
    for dev in w.get("devices", []):
        m = Module(env.world, dev["identity"])
        m.kind = "dev"
        env.world.expose(m, dev["ip"], udp_net=dev.get("udp_net"))
    if w.get("local_addrs"):
        env.net.local_addrs = [tuple(x) for x in w["local_addrs"]]
    return env


def resolve_where(env, where):
    if where == "wild":
        return env.entry
    if where == "entry":
        return env.entry
    if where == "target":
        return env.ctl if env.ctl is not None else env.entry
    return env.chassis.slots[where["slot"]]


def run(sc):
    env = build_world(sc)
    sim, net, world = env.sim, env.net, env.world
    hits = world.hits
    lib = harness.lib()
    evals = {p: 0 for p in PROPS}
    dcls = sc["driver"].get("cls", "CIPDriver")
    auto = dcls in ("LogixDriver", "SLCDriver")
    host, path_hops = route_hops_of_path(sc["driver"]["path"], auto)
    path_hops = norm_hops(path_hops)
    shape = []
    calls = 0
    with harness.Seams(sim, net, sc["driver"].get("log", "off")):
        from pycomm3 import PortSegment, Struct, DINT, UINT, STRING, USINT, CIPDriver, LogixDriver
        types = {None: None, "DINT": DINT, "UINT": UINT, "STRING": STRING,
                 "struct": Struct(UINT("a"), DINT("b"), USINT("c"))}
        drv = session.make_driver(sc, env)
        for op in sc["ops"]:
            session.begin_op(env, op["id"])
            k = op["kind"]
            calls += 1
            if k == "open":
                outcome, res = harness.call(sim, drv.open)
                shape.append((k, outcome))
                if outcome != "ok" or not res:
                    hits.hit(sc.get("prop", "C14"), "setup", f"open() -> {outcome}: {res!r}", what="open")
                    break
                continue
            if k == "close":
                outcome, res = harness.call(sim, drv.close)
                shape.append((k, outcome))
                continue
            if k == "micro800_visit":
                # another LogixDriver object in the same process opens and closes a connection to a Micro800 at
                # another address; nothing of that may reach the driver under test
                envM = session.build({"seed": sc["seed"], "world": {
                    "layout": "micro800", "ip": "10.0.0.88",
                    "identity": op.get("identity") or {"product_name": "2080-LC50-48QWB", "rev_major": 12},
                    "project": {"name": "M8", "types": {}, "programs": {}, "wallclock_us": 10**15, "tags": [
                        {"name": "m", "scope": None, "type": "DINT", "dims": [], "kind": "user", "access": 0, "alias": False,
                         "software_control": 1 << 26, "instance_id": 1, "init": "01000000"}]},
                    "choices": {"handles": "small"}}}, sim=sim, net=net)
                d2 = LogixDriver("10.0.0.88", init_tags=False)
                o1, r1 = harness.call(sim, d2.open)
                # the Micro800 has no backplane and no Unconnected Send: its identity is fetched by plain UCMM while
                # the driver opens, and `info` holds it as the device encodes it
                evals["C16"] += 1
                if o1 != "ok" or not r1:
                    hits.hit("C16", "identity.decode", f"LogixDriver.open() on a Micro800 -> {o1}: {type(r1).__name__}: {r1}",
                             api="open/get_plc_info", field="exception")
                else:
                    cmp_identity(d2.info, expected_identity(envM.ctl.identity, lib), hits, "open/get_plc_info")
                o2, r2 = harness.call(sim, d2.close)
                shape.append((k, o1, o2))
                sim.probe("second_driver_micro800_visit")
                for h in envM.world.hits.items:
                    h["features"]["driver"] = "second"
                    hits.items.append(h)
                session.begin_op(env, op["id"] + "/after")
                continue
            if k == "idle":
                sim.advance(op["us"])
                continue
            if k == "generic":
                mod = resolve_where(env, op["where"])
                g = mod.generic.get((num_of(op["cls"]), num_of(op["inst"]))) or mod.generic.get((num_of(op["cls"]), None)) \
                    or mod.generic[(None, None)]
                rep = op["reply"]
                g.status, g.ext, g.reply_data = rep["status"], tuple(rep.get("ext", ())), bytes.fromhex(rep["data"])
                route = op["route"]
                if isinstance(route, dict) and "segs" in route:
                    rarg = [PortSegment(p, l) for p, l in route["segs"]]
                    exp_hops = norm_hops([(p if isinstance(p, int) else {"bp": 1, "backplane": 1, "enet": 2}[p],
                                           (int(l) if isinstance(l, str) and l.isdigit() else (l.encode() if isinstance(l, str) else l)))
                                          for p, l in route["segs"]])
                    rarg = [PortSegment(p, l) for p, l in route["segs"]]
                    if route.get("seq") == "tuple":
                        rarg = tuple(rarg)
                elif isinstance(route, dict) and "hex" in route:
                    rarg = bytes.fromhex(route["hex"])
                    exp_hops = norm_hops([(p, val_of(l)) for p, l in route["hops"]])
                elif isinstance(route, str):
                    rarg = route
                    _, exp_hops = route_hops_of_path("x/" + route, False)
                    exp_hops = norm_hops(exp_hops)
                elif route is True:
                    rarg = True
                    exp_hops = path_hops
                else:
                    rarg = False
                    exp_hops = None
                data = bytes.fromhex(op["data"])
                kw = dict(service=op["service"], class_code=val_of(op["cls"]), instance=val_of(op["inst"]),
                          request_data=data, data_type=types[op.get("data_type")],
                          connected=op["mode"] == "connected", unconnected_send=op["mode"] == "unconnected_send",
                          route_path=rarg, name="gm")
                if op.get("attr") is not None:
                    kw["attribute"] = val_of(op["attr"])
                outcome, res = harness.call(sim, drv.generic_message, **kw)
                shape.append((k, op["mode"], outcome, rep["status"] != 0, type(route).__name__, op.get("data_type")))
                evals["C14"] += 1
                evals["C09"] += 1
                mode = op["mode"]
                feat = dict(mode=mode, route=("true" if route is True else "false" if route is False else
                                              "str" if isinstance(route, str) else "segs" if "segs" in route else "bytes"))
                if outcome != "ok":
                    hits.hit("C14", "generic.call", f"generic_message raised {type(res).__name__}: {res}",
                             what="exception:" + type(res).__name__, **feat)
                    continue
                recs = [r for r in world.oplog if r.get("kind") == "mr" and r.get("generic")]
                if len(recs) != 1:
                    hits.hit("C14", "generic.delivery", f"{len(recs)} requests reached the addressed object "
                             f"(class 0x{num_of(op['cls']):x} instance 0x{num_of(op['inst']):x} at {op['where']}); "
                             f"log: {[(r.get('kind'), r.get('status'), r.get('route_error')) for r in world.oplog if r.get('kind') in ('mr', 'unconnected_send')][:4]}",
                             what="not-delivered" if not recs else "duplicated", **feat)
                    hits.hit("C09", "path.denotes", f"generic path did not reach class 0x{num_of(op['cls']):x} instance "
                             f"0x{num_of(op['inst']):x}", kind="generic", rw="g", unresolved=True)
                    continue
                r = recs[0]
                want_attr = num_of(op["attr"]) if op.get("attr") is not None else None
                if op.get("attr") in (0, {"hex": ""}):
                    want_attr = None       # a falsy attribute is documented as 'no attribute'
                if (r["service"], r["cls"], r["inst"], r["attr"]) != (op["service"], num_of(op["cls"]), num_of(op["inst"]), want_attr):
                    hx = lambda v: "none" if v is None else f"{v:#x}"       # a decoded path may lack any of the three
                    hits.hit("C14", "generic.delivery", f"object saw service 0x{r['service']:02x} class {hx(r['cls'])} instance "
                             f"{hx(r['inst'])} attribute {r['attr']}, requested 0x{op['service']:02x} {num_of(op['cls']):#x} "
                             f"{num_of(op['inst']):#x} {want_attr}", what="address", **feat)
                    hits.hit("C09", "path.denotes", f"generic path decoded to ({hx(r['cls'])},{hx(r['inst'])},{r['attr']}) "
                             f"instead of ({num_of(op['cls']):#x},{num_of(op['inst']):#x},{want_attr})", kind="generic",
                             rw="g", unresolved=False)
                exp_transport = {"connected": "connected", "unconnected": "ucmm", "unconnected_send": "unconnected_send"}[mode]
                if r["transport"] != exp_transport:
                    hits.hit("C14", "generic.delivery", f"transport {r['transport']} instead of {exp_transport}",
                             what="transport", **feat)
                if mode == "unconnected" and exp_hops is not None:
                    want_data = data + enc_route(exp_hops)      # DESIGN 3.4 rule 2
                else:
                    want_data = data
                # the statement asks for the request data verbatim; a direct UCMM message that leaves the route
                # off is at least as faithful as one that appends it, so both are accepted
                if bytes(r["data"]) != want_data and bytes(r["data"]) != data:
                    hits.hit("C14", "generic.delivery", f"object received data {bytes(r['data']).hex()[:80]} expected "
                             f"{want_data.hex()[:80]} ({len(r['data'])} vs {len(want_data)} bytes)", what="data", **feat)
                if mode == "unconnected_send":
                    us = [x for x in world.oplog if x.get("kind") == "unconnected_send"]
                    u = us[0] if us else {}
                    msg_len = 1 + 1 + len(r.get("path") and b"" or b"")   # placeholder, real check below
                    if u.get("pad") == "missing":
                        hits.hit("C14", "us.wrapper", "odd-length embedded message without a zero pad byte", what="pad", **feat)
                    if u.get("reserved") not in (0, None):
                        hits.hit("C14", "us.wrapper", f"reserved byte {u.get('reserved')}", what="reserved", **feat)
                    if u.get("route") is not None and norm_hops(u["route"]) != exp_hops:
                        hits.hit("C14", "us.wrapper", f"route {u.get('route')} expected {exp_hops}", what="route", **feat)
                    if u.get("route_error"):
                        hits.hit("C14", "us.wrapper", f"unconnected send rejected: {u['route_error']}", what="route-error", **feat)
                    if u.get("route_bytes") is not None and exp_hops is not None and \
                            bytes([u["route_words"], u["reserved"]]) + u["route_bytes"] != enc_route(exp_hops):
                        hits.hit("C14", "us.wrapper", f"route bytes {u['route_bytes'].hex()} expected {enc_route(exp_hops).hex()}",
                                 what="route-bytes", **feat)
                # the answer
                ok_status = rep["status"] == 0
                rdata = bytes.fromhex(rep["data"])
                if op.get("partial"):
                    dt = op.get("data_type")
                    want, decodable = (rdata, True) if dt is None else ref_decode(dt, rdata)
                    as_success = bool(res) and decodable and res.value == want
                    as_failure = not bool(res) and isinstance(res.error, str) and bool(res.error.strip())
                    if not (as_success or as_failure):
                        hits.hit("C14", "generic.reply", f"partial-transfer reply (status 6, data {rdata.hex()[:40]}, type {dt}) came "
                                 f"back as {str(res)[:120]}: neither the data nor a failure with an error text",
                                 what="partial", **feat)
                elif ok_status:
                    dt = op.get("data_type")
                    if dt is None:
                        want = rdata
                        good = bool(res) and res.value == want
                    else:
                        want, decodable = ref_decode(dt, rdata)
                        if decodable:
                            good = bool(res) and res.value == want
                        else:
                            good = not bool(res) and bool(res.error)     # undecodable reply: falsy with error
                    if not good:
                        hits.hit("C14", "generic.reply", f"reply data {rdata.hex()[:60]} (type {dt}) came back as {str(res)[:120]}, "
                                 f"expected {str(want)[:60]!r}", what="value", **feat)
                else:
                    if bool(res) or not (isinstance(res.error, str) and res.error.strip()):
                        hits.hit("C14", "generic.reply", f"refused request (status 0x{rep['status']:02x}) returned {str(res)[:120]}",
                                 what="truthy-on-error" if bool(res) else "empty-error", **feat)
                    else:
                        from pycomm3.cip import SERVICE_STATUS
                        name = SERVICE_STATUS.get(rep["status"])
                        if not ((name and name in res.error) or f"{rep['status']:02x}" in res.error.lower()):
                            hits.hit("C14", "generic.reply", f"error text {res.error!r} does not name status 0x{rep['status']:02x}",
                                     what="unnamed-status", **feat)
                continue
            if k == "change_identity":
                # the device's identity changes between two calls (keyswitch turned, firmware flashed, module swapped)
                mod = resolve_where(env, op["where"]) if op["where"] != "bridge" else env.entry
                mod.identity.update(op["identity"])
                continue
            if k == "get_plc_name":
                outcome, res = harness.call(sim, drv.get_plc_name)
                evals["C14"] += 1
                shape.append((k, outcome))
                want = sc["world"]["project"]["name"]
                if outcome != "ok" or res != want or drv.info.get("name") != want:
                    hits.hit("C14", "helper", f"get_plc_name -> {outcome}: {res!r}, controller program is {want!r}", what="plc_name")
                continue
            if k == "get_plc_info":
                outcome, res = harness.call(sim, drv.get_plc_info)
                evals["C14"] += 1
                evals["C16"] += 1
                shape.append((k, outcome))
                tgt = env.ctl if env.ctl is not None else env.entry
                if outcome != "ok":
                    hits.hit("C16", "identity.decode", f"get_plc_info raised {type(res).__name__}: {res} ({res.__cause__!r})",
                             api="get_plc_info", field="exception")
                else:
                    cmp_identity(res, expected_identity(tgt.identity, lib), hits, "get_plc_info", extra_ok=("keyswitch",))
                    rt_identity(res, hits, "get_plc_info")
                continue
            if k == "get_module_info":
                outcome, res = harness.call(sim, drv.get_module_info, op["slot"])
                evals["C14"] += 1
                evals["C16"] += 1
                shape.append((k, outcome))
                mod = env.chassis.slots[op["slot"]] if env.chassis and op["slot"] < len(env.chassis.slots) else None
                if mod is None:
                    if outcome == "ok":
                        hits.hit("C16", "identity.decode", f"get_module_info({op['slot']}) of an empty slot returned {res!r}",
                                 api="get_module_info", field="empty-slot")
                    elif outcome != "library":
                        hits.hit("C14", "helper", f"get_module_info raised {type(res).__name__}", what="exception")
                elif outcome != "ok":
                    hits.hit("C16", "identity.decode", f"get_module_info({op['slot']}) raised {type(res).__name__}: {res} "
                             f"({res.__cause__!r})", api="get_module_info", field="exception")
                    # the module is there and answers: the helper's request did not reach it (C14: helpers deliver to the target)
                    hits.hit("C14", "helper", f"get_module_info({op['slot']}) of an occupied slot raised {type(res).__name__}: {res}; "
                             f"log: {[(r.get('kind'), r.get('slot'), r.get('route_error')) for r in world.oplog if r.get('kind') in ('mr', 'unconnected_send')][:3]}",
                             what="module_unreached")
                else:
                    cmp_identity(res, expected_identity(mod.identity, lib), hits, "get_module_info")
                    rt_identity(res, hits, "get_module_info")
                    recs = [r for r in world.oplog if r.get("kind") == "mr" and r.get("cls") == 1]
                    if not recs or recs[-1].get("slot") != op["slot"] or recs[-1].get("transport") != "unconnected_send" \
                            or recs[-1].get("mobj") is not mod:
                        hits.hit("C14", "helper", f"get_module_info({op['slot']}) was answered by slot "
                                 f"{recs[-1].get('slot') if recs else None} via {recs[-1].get('transport') if recs else None}",
                                 what="module_route")
                continue
            if k == "get_plc_time":
                before = env.ctl.now_wallclock()
                outcome, res = harness.call(sim, drv.get_plc_time)
                after = env.ctl.now_wallclock()
                evals["C14"] += 1
                shape.append((k, outcome))
                if outcome != "ok" or not res:
                    hits.hit("C14", "helper", f"get_plc_time -> {outcome}: {str(res)[:120]}", what="plc_time")
                else:
                    us = res.value["microseconds"]
                    dt = datetime.datetime(1970, 1, 1) + datetime.timedelta(microseconds=us)
                    if not (before <= us <= after) or res.value["datetime"] != dt:
                        hits.hit("C14", "helper", f"get_plc_time reports {us}, controller clock is in [{before},{after}]",
                                 what="plc_time")
                continue
            if k == "set_plc_time":
                t_before = int(sim.time() * 1_000_000)
                outcome, res = harness.call(sim, drv.set_plc_time, op["us"])
                t_after = int(sim.time() * 1_000_000)
                evals["C14"] += 1
                shape.append((k, outcome, op["us"] is None))
                if outcome != "ok" or not res:
                    hits.hit("C14", "helper", f"set_plc_time -> {outcome}: {str(res)[:120]}", what="set_time")
                else:
                    got = env.ctl.wallclock_us
                    if op["us"] is None:
                        if not (t_before - 1 <= got <= t_after + 1):
                            hits.hit("C14", "helper", f"set_plc_time(None) delivered {got}, client clock is {t_before}..{t_after} us",
                                     what="set_time_now")
                    elif got != op["us"]:
                        hits.hit("C14", "helper", f"set_plc_time({op['us']}) delivered {got}", what="set_time")
                    # ... and get_plc_time reports it
                    b = env.ctl.now_wallclock()
                    o2, r2 = harness.call(sim, drv.get_plc_time)
                    a = env.ctl.now_wallclock()
                    if o2 != "ok" or not r2 or not (b <= r2.value["microseconds"] <= a):
                        hits.hit("C14", "helper", f"get_plc_time after set_plc_time -> {o2}: {str(r2)[:100]} (clock {b}..{a})",
                                 what="time_roundtrip")
                continue
            if k == "list_identity":
                cls = getattr(lib, op.get("cls", "CIPDriver"))
                outcome, res = harness.call(sim, cls.list_identity, op["path"])
                evals["C16"] += 1
                shape.append((k, outcome, op.get("cls")))
                mod = world.by_ip.get(net.dns.get(op["host"], op["host"]))
                if outcome != "ok":
                    hits.hit("C16", "identity.decode", f"list_identity raised {type(res).__name__}: {res}", api="list_identity",
                             field="exception")
                else:
                    cmp_identity(res, expected_list_identity(mod, lib), hits, "list_identity")
                continue
            if k == "discover":
                cls = getattr(lib, op.get("cls", "CIPDriver"))
                outcome, res = harness.call(sim, cls.discover)
                evals["C16"] += 1
                shape.append((k, outcome, bool(sc["net"].get("udp"))))
                if outcome != "ok" or not isinstance(res, list):
                    hits.hit("C16", "identity.decode", f"discover -> {outcome}: {str(res)[:100]}", api="discover", field="exception")
                    continue
                devs = {}
                for mods in net.udp_nets.values():
                    for m in mods:
                        devs[m.ip] = m
                seen = set()
                for d in res:
                    ip = d.get("ip_address") if isinstance(d, dict) else None
                    if ip not in devs:
                        hits.hit("C16", "identity.decode", f"discover invented a device: {str(d)[:100]}", api="discover", field="invented")
                        continue
                    seen.add(ip)
                    cmp_identity(d, expected_list_identity(devs[ip], lib), hits, "discover")
                lossy = bool(sc["net"].get("udp", {}).get("drop"))
                reach = set()
                for fam, lip in net.local_addrs:
                    if fam == 4:
                        reach |= {m.ip for m in net.udp_nets.get(lip, [])}
                if not reach:
                    reach = {m.ip for m in net.udp_nets.get(None, [])}
                if not lossy and reach - seen:
                    hits.hit("C16", "identity.decode", f"discover missed reachable device(s) {sorted(reach - seen)}", api="discover",
                             field="missing")
                continue
            raise ValueError(k)
        evals["C11"] += calls
    res = {"hits": hits.items, "digest": sim.digest(), "shape": tuple(shape), "probes": dict(sim.probes),
           "faults": dict(sim.faults_fired), "frames": world.frames_in, "calls": calls, "vtime_us": sim.now_us,
           "evals": evals, "nontrivial": True, "events": sim.events if sim.keep_events else None}
    return res


def rt_identity(d, hits, api):
    """post-step: decode(encode(x)) == x for the module identity object"""
    from pycomm3 import ModuleIdentityObject
    x = {k: v for k, v in d.items() if k != "keyswitch"}
    if x.get("vendor") == "UNKNOWN" or x.get("product_type") == "UNKNOWN":
        return      # names outside the tables cannot be encoded back (no code for 'UNKNOWN')
    try:
        y = ModuleIdentityObject.decode(ModuleIdentityObject.encode(x))
        # the same identity as a dict in another key order encodes to the same bytes
        x2 = {k: (dict(reversed(list(v.items()))) if isinstance(v, dict) else v) for k, v in reversed(list(x.items()))}
        if ModuleIdentityObject.encode(x2) != ModuleIdentityObject.encode(x):
            hits.hit("C16", "identity.roundtrip", f"{api}: encoding depends on the key order of the identity dict", api=api)
    except Exception as e:  # noqa
        hits.hit("C16", "identity.roundtrip", f"{api}: encode/decode of {str(x)[:80]} raised {type(e).__name__}: {e}", api=api)
        return
    if y != x:
        hits.hit("C16", "identity.roundtrip", f"{api}: decode(encode(x)) = {str(y)[:80]} != x", api=api)


def ref_decode(dt, b):
    """reference decoding of reply data for the few data types the scenarios use"""
    try:
        if dt == "DINT":
            return (struct.unpack_from("<i", b)[0], True) if len(b) >= 4 else (None, False)
        if dt == "UINT":
            return (struct.unpack_from("<H", b)[0], True) if len(b) >= 2 else (None, False)
        if dt == "STRING":
            if len(b) < 2:
                return None, False
            n = struct.unpack_from("<H", b)[0]
            if len(b) < 2 + n or (n and len(b) == 2):
                return None, False
            return b[2:2 + n].decode("iso-8859-1"), True
        if dt == "struct":
            if len(b) < 7:
                return None, False
            a, bb, c = struct.unpack_from("<HiB", b)
            return {"a": a, "b": bb, "c": c}, True
    except Exception:  # noqa
        pass
    return None, False


# ---------------------------------------------------------------------------
def rand_identity(r):
    from pycomm3.cip.status_info import VENDORS, PRODUCT_TYPES
    known_v = sorted(int(k) for k in pinned()["vendors"])
    known_t = sorted(int(k) for k in pinned()["product_types"])
    v = r.choice(known_v) if r.random() < 0.5 else r.choice((0, 65535, r.randrange(65536)))
    t = r.choice(known_t) if r.random() < 0.5 else r.choice((0, 65535, r.randrange(65536)))
    n = r.choice((0, 1, 5, 20, 32, 254, 255, r.randrange(256)))
    name = "".join(chr(r.randrange(32, 127)) if r.random() < 0.8 else chr(r.randrange(160, 256)) for _ in range(n))
    return dict(vendor=v, product_type=t, product_code=r.choice((0, 1, 65535, r.randrange(65536))),
                rev_major=r.choice((0, 1, 20, 127, 128, 255, r.randrange(256))), rev_minor=r.choice((0, 255, r.randrange(256))),
                status=r.choice((0, 0x3060, 0xFFFF, r.randrange(65536))),
                serial=r.choice((0, 1, 0xFF, 0x00ABCDEF, 0xFFFFFFFF, r.randrange(2**32))), product_name=name,
                state=r.choice((0, 3, 255, r.randrange(256))))


def rand_id_value(r, wide=True):
    c = r.random()
    if c < 0.45:
        return r.choice(BOUNDARY[:9] if not wide else BOUNDARY)
    if c < 0.75:
        return r.randrange(1, 0x100)
    if c < 0.9:
        return r.randrange(0x100, 0x10000)
    return r.randrange(0x10000, 2**32) if wide else r.randrange(0x100, 0x10000)


def as_arg(r, n, allow_bytes=True, max_width=2):
    """int, or bytes of the natural / a wider width (32-bit only where CIP allows it: instance ids)"""
    if not allow_bytes or r.random() < 0.6:
        return n
    width = 1 if n <= 0xFF else 2 if n <= 0xFFFF else 4
    if r.random() < 0.25 and width < max_width:
        width = 2 if width == 1 else 4
    return {"hex": n.to_bytes(width, "little").hex()}


def gen(seed, tier, prop="C14"):
    r = Sim(seed).stream("gen")
    harness.lib()
    from .. import worldgen
    dcls = r.choice(("CIPDriver", "LogixDriver")) if prop != "C16" else r.choice(("CIPDriver", "LogixDriver", "LogixDriver"))
    layout = r.choice(("clx", "clx", "compact", "multihop"))
    if dcls == "CIPDriver" and r.random() < 0.3:
        layout = "cip"
    project = worldgen.light_project(r) if layout != "cip" else None
    world = {"layout": layout, "ip": "10.0.0.1", "project": project, "policy": {} if r.random() < 0.7 else {"large_fo": "refuse"},
             "identity": rand_identity(r) if prop == "C16" or r.random() < 0.3 else {"rev_major": r.choice((17, 21, 32))},
             "choices": {"handles": r.choice(("random32", "small")), "frag": "max", "page": "max"}, "objects": [], "udp_net": "192.168.1.10"}
    if isinstance(world["identity"].get("product_name"), str) and world["identity"]["product_name"].startswith("2080"):
        world["identity"]["product_name"] = "X" + world["identity"]["product_name"]
    path = "10.0.0.1"
    slots = 1
    if layout == "clx":
        slots = r.choice((3, 4, 7, 10, 17))
        cslot = r.randrange(slots)
        eslot = r.choice([s for s in range(slots) if s != cslot])
        world.update(slots=slots, slot=cslot, enet_slot=eslot, modules={}, bridge_identity=rand_identity(r) if prop == "C16" else {})
        for s in range(slots):
            if s not in (cslot, eslot) and r.random() < 0.7:
                world["modules"][str(s)] = rand_identity(r)
        if dcls == "LogixDriver":
            path = r.choice((f"10.0.0.1/{cslot}", f"10.0.0.1/bp/{cslot}", f"10.0.0.1/backplane/{cslot}", f"10.0.0.1,1,{cslot}"))
        else:
            path = r.choice((f"10.0.0.1/bp/{cslot}", f"10.0.0.1/1/{cslot}", f"10.0.0.1\\backplane\\{cslot}"))
            if prop == "C16" and r.random() < 0.3:
                path = "10.0.0.1"        # a CIPDriver pointed at the Ethernet module itself asks for the modules behind it
    elif layout == "multihop":
        from .logix import HOP_IPS
        n1 = r.choice((4, 7))
        slots = r.choice((4, 7, 13))
        e1 = r.randrange(n1)
        hop = r.choice([x for x in range(n1) if x != e1])
        eb = r.randrange(slots)
        cslot = r.choice([x for x in range(slots) if x != eb])
        hip = r.choice(HOP_IPS)
        world.update(slots=n1, enet_slot=e1, hop_slot=hop, hop_ip=hip, remote_slots=slots, remote_enet_slot=eb, slot=cslot,
                     modules={})
        for s_ in range(slots):
            if s_ not in (cslot, eb) and r.random() < 0.6:
                world["modules"][str(s_)] = rand_identity(r)
        world["_prefix"] = f"bp/{hop}/enet/{hip}"
        path = f"10.0.0.1/{r.choice(('bp', 'backplane', '1'))}/{hop}/{r.choice(('enet', '2'))}/{hip}/{r.choice(('bp', '1'))}/{cslot}"
    elif layout == "compact":
        path = r.choice(("10.0.0.1", "10.0.0.1/0")) if dcls == "LogixDriver" else "10.0.0.1/bp/0"
    sc = {"engine": "generic", "seed": seed, "prop": prop, "world": world,
          "net": {"chunk": r.choice(("whole", "mixed", "random")), "send": r.choice(("all", "mixed")), "latency": "small"},
          "driver": {"cls": dcls, "path": path, "init_tags": False, "init_program_tags": False,
                     "log": "verbose" if r.random() < 0.1 else "off", "seq_advance": r.choice((0, 0, 65533))},
          "ops": [], "faults": []}
    ops = []
    if prop == "C16":
        # devices for discovery
        world["devices"] = []
        world["local_addrs"] = [[4, "192.168.1.10"]]
        if r.random() < 0.3:
            world["local_addrs"].append([6, "fe80::1"])
        if r.random() < 0.4:
            world["local_addrs"].append([4, "10.9.8.7"])
        for i in range(r.randint(0, 5)):
            world["devices"].append({"ip": f"192.168.1.{20 + i}", "identity": rand_identity(r),
                                     "udp_net": r.choice(("192.168.1.10", "192.168.1.10", "10.9.8.7" if len(world["local_addrs"]) > 1 and world["local_addrs"][-1][0] == 4 and world["local_addrs"][-1][1] == "10.9.8.7" else "192.168.1.10"))})
        if r.random() < 0.15:
            world["udp_net"] = "unbound"
            for d in world["devices"]:
                d["udp_net"] = "unbound"   # nothing answers on bound interfaces -> unbound fallback
        sc["net"]["udp"] = r.choice(({}, {}, {"dup": 0.3}, {"reorder": 0.7}, {"drop": 0.3, "dup": 0.2, "reorder": 0.5}))
        n = r.randint(2, 6)
        ops.append({"id": "o0", "kind": "open"})
        for i in range(n):
            c = r.random()
            oid = f"o{i + 1}"
            if c < 0.3:
                lcls = r.choice(("CIPDriver", "LogixDriver"))
                # a path in the grammar of the class that is asked (the slot shortcut is Logix-only)
                lpath = path if (lcls == dcls or layout == "multihop") else \
                    ("10.0.0.1" if layout != "clx" else f"10.0.0.1/bp/{world['slot']}")
                if lcls == "LogixDriver" and layout == "cip":
                    lcls = "CIPDriver"
                    lpath = path
                ops.append({"id": oid, "kind": "list_identity", "cls": lcls, "path": lpath, "host": "10.0.0.1"})
            elif c < 0.55 and layout in ("clx", "compact", "multihop"):
                ops.append({"id": oid, "kind": "get_module_info", "slot": r.randrange(slots)})
            elif c < 0.75 and dcls == "LogixDriver":
                ops.append({"id": oid, "kind": "get_plc_info"})
            else:
                ops.append({"id": oid, "kind": "discover", "cls": r.choice(("CIPDriver", "LogixDriver"))})
        # now and then the identity of the target changes mid-history and is asked for again
        if r.random() < 0.35:
            k = r.randrange(1, len(ops) + 1)
            idn = rand_identity(r)
            idn.pop("product_name")          # keep the name (Micro800 detection hangs on it)
            idn.pop("rev_major")             # and the firmware generation (it decides what the controller supports)
            ops.insert(k, {"id": f"ci{k}", "kind": "change_identity", "where": "target", "identity": idn})
            ops.append({"id": "oy", "kind": "get_plc_info"} if dcls == "LogixDriver" else
                       {"id": "oy", "kind": "list_identity", "cls": "CIPDriver", "path": path if dcls == "CIPDriver" else
                        ("10.0.0.1" if layout not in ("clx", "multihop") else path), "host": "10.0.0.1"})
        ops.append({"id": "oz", "kind": "close"})
        rm = Sim(seed).stream("gen.micro800")     # own stream: the other draws of this seed stay what they were
        if rm.random() < 0.2:
            # a LogixDriver that opens a Micro800 learns its identity on the way (plain UCMM: the device has neither a
            # backplane nor Unconnected Send)
            idn = rand_identity(rm)
            idn["product_name"] = "2080-" + rm.choice(("LC50-48QWB", "LC30-24QBB", "LC20-20QBB", "L50E-24QWB"))
            idn["rev_major"] = rm.choice((6, 10, 12, 20, 21))
            ops.insert(rm.randrange(0, len(ops)), {"id": "mv", "kind": "micro800_visit", "identity": idn})
        sc["ops"] = ops
        return sc
    # C14 / C09 / C11
    ops.append({"id": "o0", "kind": "open"})
    n = r.randint(2, 7)
    objs = {}
    for i in range(n):
        oid = f"o{i + 1}"
        c = r.random()
        if dcls == "LogixDriver" and c < 0.3:
            hk = r.choice(("get_plc_name", "get_plc_info", "get_module_info", "get_plc_time", "set_plc_time", "set_plc_time"))
            if hk == "get_module_info":
                ops.append({"id": oid, "kind": hk, "slot": r.randrange(slots)})
            elif hk == "set_plc_time":
                ops.append({"id": oid, "kind": hk, "us": None if r.random() < 0.4 else r.choice((0, 1, 10**15, 2**57 - 1, r.randrange(2**57)))})
            else:
                ops.append({"id": oid, "kind": hk})
            if r.random() < 0.3:
                ops.append({"id": oid + "i", "kind": "idle", "us": r.choice((1, 10**6, 100 * 10**6))})
            continue
        mode = r.choice(("connected", "unconnected", "unconnected_send"))
        cls_n = rand_id_value(r, wide=False)
        while cls_n in (0x01, 0x02, 0x06, 0x64, 0x6B, 0x6C, 0x8B, 0x67, 0):
            cls_n = rand_id_value(r, wide=False)
        inst_n = rand_id_value(r)
        attr = None
        if r.random() < 0.6:
            attr_n = rand_id_value(r, wide=False)
            attr = as_arg(r, attr_n) if attr_n else None
        route = True
        where = "target"
        if mode == "connected":
            where = "target"
        elif mode == "unconnected":
            where = "entry"
            route = r.choice((True, True, False, "bp/1", {"segs": [["bp", 2]]}))
        else:
            c2 = r.random()
            if layout in ("clx", "multihop") and c2 < 0.6:
                s = r.choice([x for x in range(slots)])
                eslot = world["enet_slot"] if layout == "clx" else world["remote_enet_slot"]
                if s == eslot or (str(s) not in world["modules"] and s != world["slot"]):
                    s = world["slot"]
                where = {"slot": s} if s != world["slot"] else "target"
                form = r.random()
                if layout == "multihop":
                    hip = world["hop_ip"]
                    hops = [[1, world["hop_slot"]], [2, hip], [1, s]]
                    if form < 0.4:
                        route = f"{world['_prefix']}/{r.choice(('bp', 'backplane', '1'))}/{s}"
                    elif form < 0.7:
                        route = {"segs": [["bp", world["hop_slot"]], [r.choice(("enet", 2)), hip], ["backplane", r.choice((s, str(s)))]]}
                    else:
                        route = {"hex": enc_route([(1, world["hop_slot"]), (2, hip.encode()), (1, s)]).hex(),
                                 "hops": [[1, world["hop_slot"]], [2, {"hex": hip.encode().hex()}], [1, s]]}
                elif form < 0.4:
                    hops = [[1, s]]
                    route = r.choice((f"bp/{s}", f"backplane/{s}", f"1/{s}"))
                elif form < 0.7:
                    route = {"segs": [[r.choice(("bp", "backplane", 1)), r.choice((s, str(s)))]]}
                else:
                    route = {"hex": enc_route([(1, s)]).hex(), "hops": [[1, s]]}
            else:
                route = True
                where = "target"
        if layout == "cip":
            where = "entry"
            if mode == "unconnected_send":
                if r.random() < 0.5:
                    route = True             # Unconnected Send along the driver's own - empty - route: still a whole wrapper
                else:
                    mode = "unconnected"
                    route = r.choice((True, False))
        key = (cls_n, inst_n, repr(where))
        world["objects"].append({"where": where, "cls": cls_n, "inst": inst_n})
        dlen = r.choice((0, 0, 1, 2, 3, 4, 7, 8, 33, 100, 200, 400))
        if mode != "connected":
            dlen = min(dlen, 200)
        elif world["policy"].get("large_fo") != "refuse" and r.random() < 0.1:
            dlen = r.choice((1000, 3000, 3900))
        data = bytes(r.randrange(256) for _ in range(dlen))
        dt = r.choice((None, None, "DINT", "UINT", "STRING", "struct"))
        status = 0 if r.random() < 0.75 else r.choice((0x01, 0x05, 0x06, 0x08, 0x0E, 0x14, 0x16, 0x26, 0xFF, r.randrange(1, 256)))
        svc = r.choice((0x01, 0x0E, 0x10, 0x4B, 0x4C, 0x32, 0x7F, r.randrange(1, 0x80)))
        partial = False
        if status == 6 and svc in (0x52, 0x53, 0x55, 0x0A, 0x03):
            status = 5          # partial transfer is not a refusal for the services that continue
        if mode == "connected" and r.random() < 0.06:
            # status 6 with data on a service that continues: the statement leaves open whether a generic message
            # reports that as success (data returned/decoded) or as failure (falsy, error text) - but it is one of them
            svc = r.choice((0x52, 0x53, 0x55, 0x0A, 0x03))
            status = 6
            partial = True
        if dt is None:
            rdata = bytes(r.randrange(256) for _ in range(r.choice((0, 1, 2, 5, 64, 300))))
        elif dt == "DINT":
            rdata = struct.pack("<i", r.choice((0, -1, 2**31 - 1, -2**31, r.randrange(-2**31, 2**31))))
        elif dt == "UINT":
            rdata = struct.pack("<H", r.randrange(65536))
        elif dt == "STRING":
            s = "".join(chr(r.randrange(32, 127)) for _ in range(r.choice((0, 1, 9, 40))))
            rdata = struct.pack("<H", len(s)) + s.encode()
        else:
            rdata = struct.pack("<HiB", r.randrange(65536), r.randrange(-2**31, 2**31), r.randrange(256))
        ext = [] if status == 0 or r.random() < 0.5 else [r.choice((0x2105, 0x0100, r.randrange(65536)))]
        ops.append({"id": oid, "kind": "generic", "service": svc,
                    "cls": as_arg(r, cls_n), "inst": as_arg(r, inst_n, max_width=4), "attr": attr, "data": data.hex(), "mode": mode,
                    "route": route, "data_type": dt, "where": where,
                    "reply": {"status": status, "ext": ext, "data": rdata.hex() if status == 0 or partial else b"".hex()}})
        if partial:
            ops[-1]["reply"]["ext"] = []
            ops[-1]["partial"] = True
        if isinstance(route, dict) and "segs" in route and r.random() < 0.3:
            ops[-1]["route"] = dict(route, seq="tuple")      # any sequence of segments, not only a list
    ops.append({"id": "oz", "kind": "close"})
    if dcls == "LogixDriver" and r.random() < 0.2:
        ops.insert(r.randrange(0, len(ops) - 1), {"id": "mv", "kind": "micro800_visit"})
    sc["ops"] = ops
    return sc


def directed_identity_tables():
    """C16: every vendor id and every product type of the pinned tables (and their unknown neighbours) is reported by
    a device once and asked for through ListIdentity and through the identity object"""
    known_v = sorted(int(k) for k in pinned()["vendors"])
    known_t = sorted(int(k) for k in pinned()["product_types"])
    vs = sorted(set(known_v) | {v + 1 for v in known_v} | {0, 65535})
    ts = sorted(set(known_t) | {t + 1 for t in known_t} | {0, 65535})
    pairs = [(v, ts[i % len(ts)]) for i, v in enumerate(vs)] + [(vs[(7 * i) % len(vs)], t) for i, t in enumerate(ts)]
    out = []
    per = 60
    for a in range(0, len(pairs), per):
        ops = [{"id": "o0", "kind": "open"}]
        for i, (v, t) in enumerate(pairs[a:a + per]):
            idn = {"vendor": v & 0xFFFF, "product_type": t & 0xFFFF}
            ops.append({"id": f"c{i}", "kind": "change_identity", "where": "target", "identity": idn})
            ops.append({"id": f"l{i}", "kind": "list_identity", "cls": "CIPDriver", "path": "10.0.0.1", "host": "10.0.0.1"}
                       if i % 2 else {"id": f"m{i}", "kind": "get_module_info", "slot": 0})
        ops.append({"id": "oz", "kind": "close"})
        out.append({"engine": "generic", "seed": 8000 + a, "prop": "C16",
                    "world": {"layout": "compact", "ip": "10.0.0.1", "project": {"name": "IDT", "types": {}, "programs": {},
                                                                               "wallclock_us": 10**15, "tags": []},
                              "policy": {}, "identity": {"rev_major": 32, "product_name": "1769-L33ER"},
                              "choices": {"handles": "small", "frag": "max", "page": "max"}, "objects": [],
                              "udp_net": "192.168.1.10", "slots": 1},
                    "net": {"chunk": "whole", "send": "all", "latency": "zero"},
                    "driver": {"cls": "CIPDriver", "path": "10.0.0.1/bp/0", "init_tags": False, "init_program_tags": False,
                               "log": "off", "seq_advance": 0}, "ops": ops, "faults": []})
    return out


def directed(tier, prop="C14"):
    """C09: sweeps of class / instance / attribute values through generic messages against a wildcard object:
    every value around the 8/16/32-bit format boundaries, and (thorough) every instance id 0..0x10100"""
    if prop == "C16":
        return directed_identity_tables()
    if prop != "C09":
        return []
    vals_i = sorted(set(range(0, 0x120)) | set(range(0xFFE0, 0x10020)) | set(range(0, 0x10100, 97 if tier == "quick" else 1))
                    | {0x7FFFFFFF, 0x80000000, 0xFFFFFFFE, 0xFFFFFFFF, 0x12345678})
    vals_16 = sorted(set(range(0, 0x120)) | set(range(0xFFE0, 0x10000)) | set(range(0, 0x10000, 251 if tier == "quick" else 7)))
    out = []

    def scen(ops, seed):
        return {"engine": "generic", "seed": seed, "prop": "C09",
                "world": {"layout": "cip", "ip": "10.0.0.1", "project": None, "policy": {}, "identity": {},
                          "choices": {"handles": "small"}, "objects": [{"where": "entry", "cls": None, "inst": None}]},
                "net": {"chunk": "whole", "send": "all", "latency": "zero"},
                "driver": {"cls": "CIPDriver", "path": "10.0.0.1", "log": "off", "seq_advance": 0},
                "ops": [{"id": "o0", "kind": "open"}] + ops + [{"id": "oz", "kind": "close"}], "faults": []}

    def gop(i, cls, inst, attr, mode):
        return {"id": f"g{i}", "kind": "generic", "service": 0x0E, "cls": cls, "inst": inst, "attr": attr, "data": "",
                "mode": mode, "route": True, "data_type": None, "where": "wild",
                "reply": {"status": 0, "ext": [], "data": "01"}}
    chunk = 250
    n = 0
    for k in range(0, len(vals_i), chunk):
        ops = [gop(i, 0x300, v, None, "connected" if i % 2 else "unconnected") for i, v in enumerate(vals_i[k:k + chunk])]
        out.append(scen(ops, 8000 + n))
        n += 1
    for k in range(0, len(vals_16), chunk):
        part = vals_16[k:k + chunk]
        ops = [gop(i, v, 5, None, "connected") for i, v in enumerate(part) if v not in (0, 1, 2, 6)]
        ops += [gop(1000 + i, 0x300, 5, v, "unconnected") for i, v in enumerate(part) if v != 0]
        out.append(scen(ops, 8500 + n))
        n += 1
    return out


def shrink_candidates(sc):
    out = []
    ops = sc["ops"]
    for i in range(len(ops) - 1, 0, -1):
        c = copy.deepcopy(sc)
        del c["ops"][i]
        out.append(c)
    for i, op in enumerate(ops):
        if op["kind"] == "generic":
            if op["data"]:
                c = copy.deepcopy(sc)
                c["ops"][i]["data"] = ""
                out.append(c)
            if op["reply"]["data"] and op.get("data_type") is None:
                c = copy.deepcopy(sc)
                c["ops"][i]["reply"]["data"] = ""
                out.append(c)
    if sc.get("net", {}).get("chunk") != "whole" or sc["net"].get("send") != "all":
        c = copy.deepcopy(sc)
        c["net"] = dict(sc["net"], chunk="whole", send="all", latency="zero")
        out.append(c)
    if sc["net"].get("udp"):
        c = copy.deepcopy(sc)
        c["net"]["udp"] = {}
        out.append(c)
    if sc["world"].get("devices"):
        for i in range(len(sc["world"]["devices"])):
            c = copy.deepcopy(sc)
            del c["world"]["devices"][i]
            out.append(c)
    if sc["driver"].get("seq_advance"):
        c = copy.deepcopy(sc)
        c["driver"]["seq_advance"] = 0
        out.append(c)
    return out


def sample(sc):
    return {"seed": sc["seed"], "prop": sc.get("prop"), "driver": sc["driver"], "layout": sc["world"]["layout"],
            "slots": sc["world"].get("slots"), "net": sc.get("net"),
            "ops": [{k: (v if not isinstance(v, str) or len(v) < 40 else v[:40] + "...") for k, v in o.items() if k != "id"}
                    for o in sc["ops"]][:8]}
