"""E1 - the real pycomm3 Socket alone over SimNet (property C12).

Scenario (all explicit data):
  {"engine": "sockframe", "seed": int, "mode": "recv"|"send", "body_len": int,
   "chunks": policy (name | int | explicit list), "fault": None | {"kind":..., "byte": int}}
"""
import struct

from ..kernel import Sim, SimBudgetExceeded
from ..net import SimNet
from ..device import Hits
from .. import harness

PROPS = ("C12",)

BOUNDARY_LENS = (0, 1, 2, 3, 4, 5, 7, 8, 100, 231, 232, 233, 255, 256, 257, 488, 511, 512, 513,
                 1000, 3976, 4000, 4024, 65511)


class FramePeer:
    """accepts one connection; optionally preloads a reply frame; collects what is sent"""

    def __init__(self, preload=None):
        self.preload = preload
        self.got = bytearray()

    def accept(self, conn):
        self.conn = conn
        if self.preload is not None:
            conn.server_send(self.preload)
        return self

    def on_bytes(self, conn):
        self.got += conn.c2s
        del conn.c2s[:]

    def on_client_close(self, conn):
        pass

    def on_dead(self, conn):
        pass


def make_frame(seed, body_len):
    r = Sim(seed).stream("frame")
    body = bytes(r.randrange(256) for _ in range(min(body_len, 64))) * (body_len // 64 + 1)
    body = body[:body_len]
    hdr = struct.pack("<HHII", 0x70, body_len, r.randrange(1, 2**32), 0) + b"_pycomm_" + bytes(4)
    return hdr + body


def trigger_class(sc, frame_len):
    f = sc.get("fault")
    if f:
        k = f["kind"]
        if k in ("peer_fin",):
            return "eof-before-any" if f["byte"] == 0 else ("eof-in-header" if f["byte"] < 24 else "eof-in-body")
        if k == "peer_rst":
            return "rst"
        if k == "stall":
            return "timeout"
        return k
    ch = sc.get("chunks")
    if isinstance(ch, list) and ch:
        first = ch[0]
    elif isinstance(ch, int):
        first = ch
    else:
        return "policy:" + str(ch)
    if first < 4:
        return "first-chunk<4"
    if first < 24:
        return "first-chunk<24"
    return "chunked"


def run_duo(sc):
    """two Socket objects used by two caller threads at the same time, each on its own connection; the thread
    scheduler decides after every raw socket call who runs next.  Each caller gets exactly its own frame."""
    from ..kernel import Baton
    sim = Sim(sc["seed"], budgets={"raw_io": 0, "frames": 10})
    sim.keep_events = sc.get("_keep_events", False)
    frames = [make_frame(sc["seed"] + 17 * i, side["body_len"]) for i, side in enumerate(sc["sides"])]
    net = SimNet(sim, {"latency": "zero", "chunk": sc["chunks"], "send": sc["chunks"] if sc["chunks"] != "last_alone" else "random"}, [])
    hits = Hits(sim)
    peers = []
    for i, side in enumerate(sc["sides"]):
        p_ = FramePeer(frames[i] if side["mode"] == "recv" else None)
        net.hosts[(f"10.0.0.{i + 1}", 44818)] = p_
        peers.append(p_)
    sim.budgets["raw_io"] = sum(len(f) for f in frames) + 16
    results = [None] * len(frames)
    baton = Baton(sim.stream("sched"))
    with harness.Seams(sim, net):
        from pycomm3.socket_ import Socket
        socks = []
        for i in range(len(frames)):
            s_ = Socket(5.0)
            s_.connect(f"10.0.0.{i + 1}", 44818)
            socks.append(s_)
        net.yield_hook = baton.yield_point

        def job(i):
            def f():
                side = sc["sides"][i]
                if side["mode"] == "recv":
                    results[i] = harness.call(sim, socks[i].receive)
                else:
                    results[i] = harness.call(sim, socks[i].send, frames[i])
            return f
        threads = [baton.spawn(i, job(i)) for i in range(len(frames))]
        try:
            baton.run(list(range(len(frames))))
        finally:
            net.yield_hook = None
        for t in threads:
            t.join(timeout=5)
    switches = sum(1 for a, b in zip(baton.schedule, baton.schedule[1:]) if a != b)
    sim.probe("thread_switches", switches)
    for i, side in enumerate(sc["sides"]):
        outcome, val = results[i] if results[i] is not None else ("foreign:none", None)
        d = side["mode"]
        oracle = "sock.recv_result" if d == "recv" else "sock.send_result"
        if outcome != "ok":
            hits.hit("C12", oracle, f"caller {i}: {d} raised {val!r} with a healthy transport while another Socket object was "
                     f"in use by another thread", outcome="library-exception" if outcome == "library" else outcome,
                     trigger="two-callers", direction=d)
        elif d == "recv" and bytes(val) != frames[i]:
            other = [j for j in range(len(frames)) if j != i and bytes(val) == frames[j]]
            hits.hit("C12", oracle, f"caller {i}: receive() returned {len(val)} bytes that are not its frame of {len(frames[i])} "
                     f"bytes{' (it is the other caller\'s frame)' if other else ''}; schedule {baton.schedule[:40]}",
                     outcome="wrong-bytes", trigger="two-callers", direction=d)
        elif d == "send" and (bytes(peers[i].got) != frames[i] or val != len(frames[i])):
            hits.hit("C12", oracle, f"caller {i}: peer received {len(peers[i].got)} of {len(frames[i])} bytes", outcome="wrong-bytes",
                     trigger="two-callers", direction=d)
    shape = ("duo", tuple(s_["mode"] for s_ in sc["sides"]), str(sc["chunks"]), min(switches, 3))
    return {"hits": hits.items, "digest": sim.digest(), "shape": shape, "probes": dict(sim.probes),
            "faults": dict(sim.faults_fired), "frames": len(frames), "calls": len(frames), "vtime_us": sim.now_us,
            "evals": {"C12": len(frames)}, "nontrivial": True, "events": sim.events if sim.keep_events else None}


def run(sc):
    if sc.get("mode") == "duo":
        return run_duo(sc)
    sim = Sim(sc["seed"], budgets={"raw_io": 0, "frames": 10})
    sim.keep_events = sc.get("_keep_events", False)
    mode = sc["mode"]
    frame = make_frame(sc["seed"], sc["body_len"])
    fault = sc.get("fault")
    faults = []
    if fault:
        faults.append({"id": "f0", "kind": fault["kind"],
                       "at": {"op": None, "dir": "recv" if mode == "recv" else "send", "nth": 0,
                              "byte": fault["byte"]}})
    choices = {"latency": "zero"}
    if mode == "recv":
        choices["chunk"] = list(sc["chunks"]) if isinstance(sc["chunks"], list) else sc["chunks"]
    else:
        choices["send"] = list(sc["chunks"]) if isinstance(sc["chunks"], list) else sc["chunks"]
    net = SimNet(sim, choices, faults)
    hits = Hits(sim)
    peer = FramePeer(frame if mode == "recv" else None)
    net.hosts[("10.0.0.1", 44818)] = peer
    # termination bound of the statement: at most len(frame)+2 raw recv calls (+ connect)
    sim.budgets["raw_io"] = len(frame) + 8
    trig = trigger_class(sc, len(frame))
    evals = 0
    with harness.Seams(sim, net):
        lib = harness.lib()
        from pycomm3.socket_ import Socket
        sock = Socket(5.0)
        sock.connect("10.0.0.1", 44818)
        if mode == "recv":
            outcome, val = harness.call(sim, sock.receive)
            evals += 1
            fired = bool(fault) and net.faults[0].fired
            if outcome == "budget":
                hits.hit("C12", "sock.recv_result", f"receive() did not terminate within {len(frame) + 8} raw "
                         f"socket calls ({trig})", outcome="hang", trigger=trig, direction="recv")
            elif outcome.startswith("foreign"):
                hits.hit("C12", "sock.recv_result", f"receive() raised {outcome[8:]}: {val!r} ({trig})",
                         outcome=outcome, trigger=trig, direction="recv")
            elif fault and fired:
                if outcome == "ok":
                    hits.hit("C12", "sock.recv_result", f"receive() returned {len(val)} bytes although the "
                             f"peer failed after {fault['byte']} of {len(frame)} ({trig})",
                             outcome="partial", trigger=trig, direction="recv")
                elif not isinstance(val, harness.lib().CommError):        # CommError or a subclass of it
                    hits.hit("C12", "sock.recv_result", f"receive() raised {type(val).__name__}, not CommError",
                             outcome="library:" + type(val).__name__, trigger=trig, direction="recv")
            else:
                if outcome != "ok":
                    hits.hit("C12", "sock.recv_result", f"receive() raised {val!r} on an intact frame ({trig})",
                             outcome="library-exception", trigger=trig, direction="recv")
                elif bytes(val) != frame:
                    kind = "partial" if len(val) < len(frame) else "wrong-bytes"
                    hits.hit("C12", "sock.recv_result", f"receive() returned {len(val)} bytes, frame has "
                             f"{len(frame)} ({trig})", outcome=kind, trigger=trig, direction="recv")
        else:
            outcome, val = harness.call(sim, sock.send, frame)
            evals += 1
            fired = bool(fault) and net.faults[0].fired
            if outcome == "budget":
                hits.hit("C12", "sock.send_result", f"send() did not terminate ({trig})",
                         outcome="hang", trigger=trig, direction="send")
            elif outcome.startswith("foreign"):
                hits.hit("C12", "sock.send_result", f"send() raised {outcome[8:]}: {val!r}",
                         outcome=outcome, trigger=trig, direction="send")
            elif fault and fired:
                if outcome == "ok":
                    hits.hit("C12", "sock.send_result", f"send() returned {val} although the transport failed "
                             f"at byte {fault['byte']} ({trig})", outcome="ok-on-fault", trigger=trig,
                             direction="send")
                elif not isinstance(val, harness.lib().CommError):        # CommError or a subclass of it
                    hits.hit("C12", "sock.send_result", f"send() raised {type(val).__name__}, not CommError",
                             outcome="library:" + type(val).__name__, trigger=trig, direction="send")
            else:
                if outcome != "ok":
                    hits.hit("C12", "sock.send_result", f"send() raised {val!r} with a healthy transport",
                             outcome="library-exception", trigger=trig, direction="send")
                elif bytes(peer.got) != frame or val != len(frame):
                    hits.hit("C12", "sock.send_result", f"peer received {len(peer.got)} of {len(frame)} bytes, "
                             f"send() returned {val}", outcome="wrong-bytes", trigger=trig, direction="send")
    shape = (mode, trig, "fault" if fault else "nofault",
             "hdr0" if sc["body_len"] == 0 else ("small" if sc["body_len"] < 232 else "multi-recv"))
    return {"hits": hits.items, "digest": sim.digest(), "shape": shape, "probes": dict(sim.probes),
            "faults": dict(sim.faults_fired), "frames": 1, "calls": 1, "vtime_us": sim.now_us,
            "evals": {"C12": evals}, "nontrivial": True,
            "events": sim.events if sim.keep_events else None}


# ---- generation -----------------------------------------------------------
def compositions(n):
    """all compositions of n (ordered sums), n small"""
    if n == 0:
        yield []
        return
    for first in range(1, n + 1):
        for rest in compositions(n - first):
            yield [first] + rest


def directed(tier):
    out = directed_duo(tier)
    seed = 1
    # all compositions of the first 8 (quick) / 11 (thorough) bytes x {rest whole}
    for comp in compositions(11 if tier == "thorough" else 8):
        for body in (0, 5, 300):
            out.append({"engine": "sockframe", "seed": seed, "mode": "recv", "body_len": body,
                        "chunks": comp + [100000], "fault": None})
            out.append({"engine": "sockframe", "seed": seed, "mode": "send", "body_len": body,
                        "chunks": comp + [100000], "fault": None})
    # first chunk 1..30, then whole / then 256-aligned
    for first in range(1, 31):
        for body in (0, 1, 232, 233, 1000):
            out.append({"engine": "sockframe", "seed": seed + first, "mode": "recv", "body_len": body,
                        "chunks": [first, 100000], "fault": None})
    # boundary lengths x policies
    for body in BOUNDARY_LENS:
        for pol in ("whole", 1 if body <= 2048 else 255, 256, "last_alone", "header_split", "random"):
            out.append({"engine": "sockframe", "seed": seed + body, "mode": "recv", "body_len": body,
                        "chunks": pol, "fault": None})
        for pol in ("all", 1 if body <= 2048 else 255, "random", 24, 23, 25):
            out.append({"engine": "sockframe", "seed": seed + body, "mode": "send", "body_len": body,
                        "chunks": pol, "fault": None})
    # FIN / RST / timeout after every byte of small frames (both directions)
    for body in (0, 1, 10, 40) + ((232, 300) if tier == "thorough" else ()):
        n = 24 + body
        for b in range(0, n):
            for kind in ("peer_fin", "peer_rst", "stall"):
                for pol in ("whole", 3):
                    out.append({"engine": "sockframe", "seed": seed + b, "mode": "recv", "body_len": body,
                                "chunks": pol, "fault": {"kind": kind, "byte": b}})
            for kind in ("send_epipe", "send_rst", "send_timeout", "send_zero"):
                for pol in ("all", 5):
                    out.append({"engine": "sockframe", "seed": seed + b, "mode": "send", "body_len": body,
                                "chunks": pol, "fault": {"kind": kind, "byte": b}})
    return out


def directed_duo(tier):
    out = []
    n = 0
    for ma, mb in (("recv", "recv"), ("recv", "send"), ("send", "send")):
        for ba, bb in ((200, 204), (0, 300), (40, 40)):
            for ch in (1, 7, "random"):
                for k in range(6 if tier == "quick" else 40):
                    n += 1
                    out.append({"engine": "sockframe", "seed": 7000 + n, "mode": "duo",
                                "sides": [{"mode": ma, "body_len": ba}, {"mode": mb, "body_len": bb}], "chunks": ch})
    return out


def gen(seed, tier):
    r = Sim(seed).stream("gen")
    if r.random() < 0.04:
        return {"engine": "sockframe", "seed": seed, "mode": "duo",
                "sides": [{"mode": r.choice(("recv", "recv", "send")), "body_len": r.choice((0, 5, 40, 200, 300, 700))}
                          for _ in range(2)],
                "chunks": r.choice((1, 3, 7, 24, "random", 100))}
    mode = "recv" if r.random() < 0.6 else "send"
    c = r.random()
    if c < 0.3:
        body = r.choice(BOUNDARY_LENS)
    elif c < 0.8:
        body = r.randrange(0, 600)
    else:
        body = r.randrange(0, 65512)
    n = 24 + body
    c = r.random()
    if c < 0.35:
        chunks = "random"
    elif c < 0.5:
        chunks = r.choice((1, 2, 3, 4, 7, 23, 24, 25, 255, 256, 257)) if n < 3000 else r.choice((255, 256, 257))
    elif c < 0.6:
        chunks = "header_split" if mode == "recv" else "mixed"
    elif c < 0.7:
        chunks = "last_alone" if mode == "recv" else "random"
    else:
        # explicit random composition
        chunks = []
        left = n
        while left > 0 and len(chunks) < 400:
            k = r.randint(1, min(left, r.choice((3, 30, 300, 3000))))
            chunks.append(k)
            left -= k
        chunks.append(100000)
    fault = None
    if r.random() < 0.4:
        if mode == "recv":
            fault = {"kind": r.choice(("peer_fin", "peer_rst", "stall")), "byte": r.randrange(0, n)}
        else:
            fault = {"kind": r.choice(("send_epipe", "send_rst", "send_timeout", "send_zero")),
                     "byte": r.randrange(0, n)}
    return {"engine": "sockframe", "seed": seed, "mode": mode, "body_len": body, "chunks": chunks,
            "fault": fault}


def shrink_candidates(sc):
    """simpler variants, most aggressive first"""
    out = []
    if sc.get("mode") == "duo":
        for i, side in enumerate(sc["sides"]):
            for b in (0, 5, side["body_len"] // 2):
                if b < side["body_len"]:
                    c = dict(sc, sides=[dict(x) for x in sc["sides"]])
                    c["sides"][i]["body_len"] = b
                    out.append(c)
        if sc["seed"] != 1:
            out.append(dict(sc, seed=1))
        return out
    if sc["body_len"] > 0:
        for b in (0, 1, sc["body_len"] // 2):
            if b < sc["body_len"]:
                c = dict(sc, body_len=b)
                if c.get("fault") and c["fault"]["byte"] >= 24 + b:
                    c["fault"] = dict(c["fault"], byte=24 + b - 1)
                out.append(c)
    ch = sc["chunks"]
    if isinstance(ch, list) and len(ch) > 2:
        out.append(dict(sc, chunks=ch[:1] + [100000]))
        out.append(dict(sc, chunks=ch[:len(ch) // 2] + [100000]))
    if not isinstance(ch, list) and ch not in ("whole", "all") and sc.get("fault"):
        out.append(dict(sc, chunks="whole" if sc["mode"] == "recv" else "all"))
    if sc.get("fault") and sc["fault"]["byte"] > 0:
        out.append(dict(sc, fault=dict(sc["fault"], byte=0)))
        out.append(dict(sc, fault=dict(sc["fault"], byte=sc["fault"]["byte"] // 2)))
    if sc["seed"] != 1:
        out.append(dict(sc, seed=1))
    return out


def sample(sc):
    return {k: (v if not (isinstance(v, list) and len(v) > 12) else v[:12] + ["..."]) for k, v in sc.items()}
