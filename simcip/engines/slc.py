"""E6 - the real SLCDriver against the reference SLC data table (C18); feeds C11/C17 monitors.

Address AST: {"ft","file","elem","word"(I/O position),"bit","count","form": word|bit|bfn|tc,"sub","lower"}
ops: open | close | read {"addrs":[{"text","ast"|None,"invalid":kind|None}]} | write {... "values":[...]}
"""
import copy
import struct

from ..kernel import Sim
from .. import session, harness
from ..slc_target import SlcController, ELEM_SIZE
from ..refmodel import values_equal

PROPS = ("C18", "C11", "C17")
GEN_TAKES_PROP = True

TC_WORD = {"PRE": 1, "ACC": 2}
T_BITS = {"EN": 15, "TT": 14, "DN": 13}
C_BITS = {"CU": 15, "CD": 14, "DN": 13, "OV": 12, "UN": 11, "UA": 10}
WORD16 = ("N", "B", "S", "I", "O")


def render(a):
    ft = a["ft"]
    s = ft
    if ft in ("I", "O"):
        s += f":{a['elem']}"
        if a.get("word") is not None:
            s += f".{a['word']}"
    elif ft == "S":
        s += f":{a['elem']}"
    elif a["form"] == "bfn":
        s += f"{a['file']}/{a['elem'] * 16 + a['bit']}"
    else:
        s += f"{a['file']}:{a['elem']}"
    if a["form"] == "bit":
        s += f"/{a['bit']}"
    if a["form"] == "tc":
        s += f".{a['sub']}"
    base = s
    if a.get("count") is not None:
        s += "{" + str(a["count"]) + "}"
    if a.get("lower"):
        s, base = s.lower(), base.lower()
    return s, base


def locate(a, io_words):
    """-> (file number, byte offset of the first addressed word, element size used for values)"""
    ft = a["ft"]
    if ft == "I":
        return 1, (a["elem"] * io_words + (a.get("word") or 0)) * 2
    if ft == "O":
        return 0, (a["elem"] * io_words + (a.get("word") or 0)) * 2
    if ft == "S":
        return 2, a["elem"] * 2
    es = ELEM_SIZE[ft]
    off = a["elem"] * es
    if a["form"] == "tc":
        off += 2 * TC_WORD.get(a["sub"], 0)
    return a["file"], off


def dec_elem(ft, b):
    if ft == "F":
        return struct.unpack("<f", b)[0]
    if ft == "L":
        return struct.unpack("<i", b)[0]
    return struct.unpack("<h", b)[0]


def enc_elem(ft, v):
    if ft == "F":
        return struct.pack("<f", v)
    if ft == "L":
        return struct.pack("<i", v)
    return struct.pack("<h", v)


def vsize(ft):
    return 4 if ft in ("F", "L") else 2


def expect_read(a, files, io_words):
    fnum, off = locate(a, io_words)
    data = files[fnum]["data"]
    ft = a["ft"]
    if a["form"] == "tc":
        if a["sub"] in TC_WORD:
            return struct.unpack_from("<h", data, off)[0]
        bits = T_BITS if ft == "T" else C_BITS
        w = struct.unpack_from("<H", data, off)[0]
        return bool(w >> bits[a["sub"]] & 1)
    if a["form"] in ("bit", "bfn"):
        vs = vsize(ft)
        w = int.from_bytes(data[off:off + vs], "little")
        return bool(w >> a["bit"] & 1)
    vs = vsize(ft)
    n = a.get("count") or 1
    vals = [dec_elem(ft, bytes(data[off + i * vs:off + (i + 1) * vs])) for i in range(n)]
    return vals if n > 1 else vals[0]


def build(sc):
    env = session.build(dict(sc, world=dict(sc["world"], project=None, layout="cip")))
    # replace the bare device by an SLC controller in a one-slot chassis
    w = sc["world"]
    world = env.world
    net = env.net
    ip = w.get("ip", "10.0.0.1")
    del net.hosts[(ip, w.get("port", 44818))]
    slc = SlcController(world, w["table"], w.get("identity"), w.get("io_words", 4))
    layout = w.get("layout", "compact")
    if layout == "compact":
        ch = world.add_chassis(1)
        ch.put(0, slc)
        entry = slc
    else:
        from ..device import Module
        from ..session import ENET_IDENTITY
        ch = world.add_chassis(w.get("slots", 4))
        entry = Module(world, ENET_IDENTITY)
        entry.kind = "enet"
        ch.put(w.get("enet_slot", 1), entry)
        ch.put(w.get("slot", 0), slc)
    entry.policy = dict(w.get("policy", {}))
    world.expose(entry, ip, w.get("port", 44818))
    env.entry, env.slc, env.chassis = entry, slc, ch
    return env


def run(sc):
    env = build(sc)
    sim, net, world, slc = env.sim, env.net, env.world, env.slc
    hits = world.hits
    iow = slc.io_words
    evals = {p: 0 for p in PROPS}
    shape = []
    calls = 0
    with harness.Seams(sim, net, sc["driver"].get("log", "off")):
        lib = harness.lib()
        drv = lib.SLCDriver(sc["driver"]["path"])
        session.advance_sequence(drv, sc["driver"].get("seq_advance", 0))
        for op in sc["ops"]:
            session.begin_op(env, op["id"])
            k = op["kind"]
            calls += 1
            if k == "open":
                outcome, res = harness.call(sim, drv.open)
                shape.append((k, outcome))
                if outcome != "ok" or not res:
                    hits.hit("C18", "setup", f"open() -> {outcome}: {res!r}", what="open")
                    break
                continue
            if k == "close":
                outcome, res = harness.call(sim, drv.close)
                shape.append((k, outcome))
                continue
            addrs = op["addrs"]
            before = {n: bytes(f["data"]) for n, f in slc.files.items()}
            slc.pccc_log = []
            slc.inject = [dict(i) for i in op.get("inject", [])]
            if k == "read":
                outcome, res = harness.call(sim, drv.read, *[a["text"] for a in addrs])
            else:
                outcome, res = harness.call(sim, drv.write, *[(a["text"], v) for a, v in zip(addrs, op["values"])])
            evals["C18"] += 1
            evals["C11"] += 1
            evals["C17"] += len([1 for r in world.oplog if r.get("kind") == "seq"])
            inv = [a for a in addrs if a.get("invalid")]
            shape.append((k, outcome, tuple(sorted({(a["ast"] or {}).get("form", a.get("invalid") or "?") for a in addrs})),
                          tuple(sorted({(a["ast"] or {}).get("ft", "?") for a in addrs}))))
            if inv:
                # a single invalid address per call: RequestError and nothing emitted
                if outcome == "library" and isinstance(res, harness.lib().RequestError):      # the class or a subclass of it
                    if slc.pccc_log:
                        hits.hit("C18", "slc.invalid", f"{k} of invalid address {inv[0]['text']!r} emitted "
                                 f"{len(slc.pccc_log)} PCCC command(s) before raising", form=inv[0]["invalid"], what="emitted", rw=k)
                else:
                    got = f"{outcome}: {str(res)[:100]}"
                    hits.hit("C18", "slc.invalid", f"{k} of invalid address {inv[0]['text']!r} ({inv[0]['invalid']}) was not "
                             f"rejected with RequestError: {got}; PCCC seen: "
                             f"{[(r.get('file'), r.get('elem'), r.get('sub')) for r in slc.pccc_log][:2]}",
                             form=inv[0]["invalid"], what="accepted" if outcome == "ok" else "wrong-exception", rw=k)
                for n, f in slc.files.items():
                    if bytes(f["data"]) != before[n]:
                        hits.hit("C18", "slc.table_diff", f"invalid address {inv[0]['text']!r} changed file {n}",
                                 form=inv[0]["invalid"], ft="?", field="changed-on-invalid")
                continue
            if op.get("inject"):
                # the controller (or a gateway on the way) refuses every command of this call with a PCCC status: no
                # result may claim success - a "written" value that a following read does not return - and nothing changed
                sts = op["inject"][0]["sts"]
                rs = (res if isinstance(res, list) else [res]) if outcome == "ok" else []
                if outcome not in ("ok", "library"):
                    hits.hit("C18", "slc.refused", f"{k} refused with STS 0x{sts:02x} raised {type(res).__name__}: {res}",
                             what="foreign-exception", rw=k, sts_class="local" if sts < 0x10 else "remote")
                for a, t in zip(addrs, rs):
                    if t.error is None or (k == "write" and bool(t)) or (k == "read" and t.value is not None):
                        hits.hit("C18", "slc.refused", f"{k} {a['text']!r} was refused with STS 0x{sts:02x} but returned {t!r}",
                                 what="success-on-refusal", rw=k, sts_class="local" if sts < 0x10 else "remote")
                for n, f in slc.files.items():
                    if bytes(f["data"]) != before[n]:
                        hits.hit("C18", "slc.table_diff", f"refused {k} changed file {n}", form="refused", ft="?",
                                 field="changed-on-refusal")
                continue
            if outcome != "ok":
                hits.hit("C18", "slc.call", f"{k} of {[a['text'] for a in addrs]} raised {type(res).__name__}: {res} "
                         f"({getattr(res, '__cause__', None)!r})", what="exception:" + type(res).__name__, rw=k,
                         form=addrs[0]["ast"]["form"], ft=addrs[0]["ast"]["ft"])
                continue
            results = res if isinstance(res, list) else [res]
            if len(results) != len(addrs) or (len(addrs) == 1 and isinstance(res, list)):
                hits.hit("C18", "slc.call", f"{k} of {len(addrs)} addresses returned {len(results)} results", what="shape",
                         rw=k, form="n/a", ft="n/a")
                continue
            if k == "read":
                for a, t in zip(addrs, results):
                    ast = a["ast"]
                    want = expect_read(ast, slc.files, iow)
                    text, base = render(ast)
                    f = dict(ft=ast["ft"], form=ast["form"] + ("+count" if ast.get("count") else ""), rw="r")
                    if not bool(t) and not (t.value is False or t.value == 0 or t.value == 0.0) or t.error is not None:
                        hits.hit("C18", "slc.value", f"read {a['text']!r} failed: {t!r}; PCCC: {slc.pccc_log[-1:] and {x: slc.pccc_log[-1].get(x) for x in ('file', 'ftype', 'elem', 'sub', 'size', 'sts', 'why')}}",
                                 field="failed", boundary=boundary(ast), **f)
                    elif not strict_equal(t.value, want):
                        hits.hit("C18", "slc.value", f"read {a['text']!r} returned {t.value!r}, data table holds {want!r}",
                                 field="value", boundary=boundary(ast), **f)
                    elif t.tag != base and t.tag.upper() != base.upper():
                        hits.hit("C18", "slc.value", f"read {a['text']!r} returned tag name {t.tag!r}", field="name",
                                 boundary=boundary(ast), **f)
                    check_command(ast, slc, iow, hits, f)
            else:
                allowed = {}
                for a, v, t in zip(addrs, op["values"], results):
                    ast = a["ast"]
                    f = dict(ft=ast["ft"], form=ast["form"] + ("+count" if ast.get("count") else ""), rw="w")
                    fnum, off = locate(ast, iow)
                    vs = vsize(ast["ft"])
                    if t.error is not None or t.value is None:
                        hits.hit("C18", "slc.value", f"write {a['text']!r} = {v!r} failed: {t!r}; PCCC: "
                                 f"{slc.pccc_log[-1:] and {x: slc.pccc_log[-1].get(x) for x in ('file', 'ftype', 'elem', 'sub', 'size', 'sts', 'why')}}",
                                 field="failed", boundary=boundary(ast), **f)
                        continue
                    data = slc.files[fnum]["data"]
                    if ast["form"] in ("bit", "bfn"):
                        byte = off + ast["bit"] // 8
                        m = 1 << (ast["bit"] % 8)
                        allowed.setdefault(fnum, []).append((byte, byte + 1, m))
                        if bool(data[byte] & m) != bool(v):
                            hits.hit("C18", "slc.table_diff", f"bit write {a['text']!r} = {v!r}: bit is {bool(data[byte] & m)} in the "
                                     f"data table", field="bit-not-set", boundary=boundary(ast), **f)
                    else:
                        n = ast.get("count") or 1
                        vals = list(v[:n]) if n > 1 else [v]
                        exp = b"".join(enc_elem(ast["ft"], x) for x in vals)
                        allowed.setdefault(fnum, []).append((off, off + len(exp), 0xFF))
                        if bytes(data[off:off + len(exp)]) != exp:
                            hits.hit("C18", "slc.table_diff", f"write {a['text']!r} = {v!r}: table holds "
                                     f"{bytes(data[off:off + len(exp)]).hex()}, expected {exp.hex()}", field="value",
                                     boundary=boundary(ast), **f)
                    check_command(ast, slc, iow, hits, f)
                for n, fl in slc.files.items():
                    a_, b_ = fl["data"], before[n]
                    if bytes(a_) == b_:
                        continue
                    for i in range(len(b_)):
                        if a_[i] != b_[i]:
                            diff = a_[i] ^ b_[i]
                            ok = 0
                            for lo, hi, m in allowed.get(n, []):
                                if lo <= i < hi:
                                    ok |= m
                            if diff & ~ok & 0xFF:
                                ast0 = addrs[0]["ast"]
                                hits.hit("C18", "slc.table_diff", f"write {[a['text'] for a in addrs]} changed byte {i} of file {n} "
                                         f"(0x{b_[i]:02x}->0x{a_[i]:02x}) outside the addressed element(s)/bit",
                                         field="outside", boundary=boundary(ast0), ft=ast0["ft"], form=ast0["form"], rw="w")
                                break
                # read back
                session.begin_op(env, op["id"] + "/rb")
                o2, r2 = harness.call(sim, drv.read, *[a["text"] for a in addrs])
                calls += 1
                if o2 == "ok":
                    rr = r2 if isinstance(r2, list) else [r2]
                    for a, v, t in zip(addrs, op["values"], rr):
                        ast = a["ast"]
                        want = expect_read(ast, slc.files, iow)
                        if not values_equal(t.value, want):
                            hits.hit("C18", "slc.value", f"read-after-write {a['text']!r}: {t.value!r} vs table {want!r}",
                                     field="readback", boundary=boundary(ast), ft=ast["ft"], form=ast["form"], rw="w")
            if sim.blown:
                break
    return {"hits": hits.items, "digest": sim.digest(), "shape": tuple(shape), "probes": dict(sim.probes),
            "faults": dict(sim.faults_fired), "frames": world.frames_in, "calls": calls, "vtime_us": sim.now_us,
            "evals": evals, "nontrivial": True, "events": sim.events if sim.keep_events else None}


def boundary(ast):
    b = []
    if ast.get("elem") == 255:
        b.append("elem=255")
    if ast.get("file") == 255:
        b.append("file=255")
    if ast["form"] == "bfn" and ast["elem"] > 0:
        b.append("n>=16")
    if ast.get("bit") == 15:
        b.append("bit=15")
    return "+".join(b) or "none"


def check_command(ast, slc, iow, hits, f):
    """denotation: the PCCC commands of this call that name the right file/type cover the addressed word(s)"""
    fnum, off = locate(ast, iow)
    n = (ast.get("count") or 1) * vsize(ast["ft"])
    if ast["form"] in ("bit", "bfn", "tc"):
        n = 2
    from ..slc_target import FILE_TYPES
    # the commands of this call that name the right file and type, taken together, cover the addressed bytes
    # (a long {count} request may legitimately travel as several consecutive commands)
    covered = bytearray(n)
    for r in slc.pccc_log:
        if r.get("range") and r["range"][0] == fnum and FILE_TYPES.get(r.get("ftype"), ("?",))[0] == ast["ft"]:
            lo, hi = max(r["range"][1], off), min(r["range"][2], off + n)
            for i in range(lo, hi):
                covered[i - off] = 1
    if all(covered):
        return
    seen = [(r.get("file"), hex(r.get("ftype") or 0), r.get("elem"), r.get("sub"), r.get("size"), r.get("why")) for r in slc.pccc_log]
    hits.hit("C18", "slc.address", f"no PCCC command addressed file {fnum} type {ast['ft']} bytes {off}..{off + n}; seen {seen[:3]}",
             field="range", boundary=boundary(ast), **f)


# ---------------------------------------------------------------------------
def gen_table(r):
    table = {}
    iow = r.choice((1, 2, 4))
    table["0"] = {"type": "O", "data": bytes(r.randrange(256) for _ in range(2 * iow * r.choice((4, 8, 31)))).hex()}
    table["1"] = {"type": "I", "data": bytes(r.randrange(256) for _ in range(2 * iow * r.choice((4, 8, 31)))).hex()}
    table["2"] = {"type": "S", "data": bytes(r.randrange(256) for _ in range(2 * r.choice((33, 66, 164)))).hex()}
    table["3"] = {"type": "B", "data": bytes(r.randrange(256) for _ in range(2 * r.choice((1, 16, 64, 256)))).hex()}
    table["4"] = {"type": "T", "data": bytes(r.randrange(256) for _ in range(6 * r.choice((1, 5, 40)))).hex()}
    table["5"] = {"type": "C", "data": bytes(r.randrange(256) for _ in range(6 * r.choice((1, 5, 40)))).hex()}
    table["7"] = {"type": "N", "data": bytes(r.randrange(256) for _ in range(2 * r.choice((1, 10, 100, 256)))).hex()}
    table["8"] = {"type": "F", "data": b"".join(struct.pack("<f", r.uniform(-1e6, 1e6)) for _ in range(r.choice((1, 10, 60, 256)))).hex()}
    used = {0, 1, 2, 3, 4, 5, 7, 8}
    for _ in range(r.randint(1, 5)):
        n = r.choice((9, 10, 21, 99, 100, 120, 254, 255, r.randrange(9, 256)))
        if n in used:
            continue
        used.add(n)
        t = r.choice(("N", "N", "B", "F", "L", "T", "C"))
        cnt = r.choice((1, 3, 17, 100, 256))
        if t == "F":
            data = b"".join(struct.pack("<f", r.uniform(-1e6, 1e6)) for _ in range(cnt))
        else:
            data = bytes(r.randrange(256) for _ in range(ELEM_SIZE[t] * cnt))
        table[str(n)] = {"type": t, "data": data.hex()}
    # plenty of words at the ends of the range: a cleared timer, a preset of 0, a full counter
    for f in table.values():
        if f["type"] == "F" or r.random() < 0.3:
            continue
        b = bytearray(bytes.fromhex(f["data"]))
        for i in range(0, len(b) - 1, 2):
            if r.random() < 0.2:
                b[i:i + 2] = struct.pack("<H", r.choice((0, 0, 0, 1, 0x7FFF, 0x8000, 0xFFFF)))
        f["data"] = bytes(b).hex()
    return table, iow


def strict_equal(got, want):
    """values_equal, and a number is not a truth value: 0 from a word is not False, a bit is not 1"""
    if not values_equal(got, want):
        return False
    if isinstance(want, (list, tuple)) and isinstance(got, (list, tuple)):
        return all(strict_equal(g, w) for g, w in zip(got, want))
    if isinstance(want, bool) != isinstance(got, bool) and isinstance(want, (bool, int)) and isinstance(got, (bool, int)):
        return False
    return True


def gen_addr(r, table, iow, for_write):
    """-> AST of a valid address in the documented grammar (None when nothing fits)"""
    for _ in range(30):
        fnum = int(r.choice(sorted(table, key=int)))
        f = table[str(fnum)]
        ft = f["type"]
        nbytes = len(f["data"]) // 2
        if ft in ("T", "C"):
            if for_write:
                continue
            n = nbytes // 6
            subs = ["PRE", "ACC"] + list(T_BITS if ft == "T" else C_BITS)
            return {"ft": ft, "file": fnum, "elem": r.randrange(min(n, 256)), "form": "tc", "sub": r.choice(subs),
                    "bit": None, "count": None, "lower": r.random() < 0.15}
        es = 2 * iow if ft in ("I", "O") else ELEM_SIZE[ft]
        n = min(nbytes // es, 256)
        if n == 0:
            continue
        elem = r.choice((0, n - 1, r.randrange(n), r.randrange(n)))
        a = {"ft": ft, "file": None if ft in ("I", "O", "S") else fnum, "elem": elem, "form": "word", "bit": None,
             "count": None, "lower": r.random() < 0.15}
        if ft in ("I", "O"):
            a["word"] = r.randrange(iow) if r.random() < 0.7 else None
        c = r.random()
        if ft == "B" and c < 0.4:
            a["form"] = "bfn"
            a["bit"] = r.choice((0, 15, r.randrange(16)))
            if elem * 16 + a["bit"] > 4095:
                continue
            return a
        if c < 0.35 and ft in WORD16 + ("L",):
            if ft == "L" and r.random() < 0.7:
                pass
            else:
                a["form"] = "bit"
                a["bit"] = r.choice((0, 15, r.randrange(16)))
                return a
        if c < 0.6 and ft not in ("I", "O"):
            left = n - elem
            vs = vsize(ft)
            maxc = min(left, 100 // vs if for_write else 200 // vs)
            if maxc >= 2:
                a["count"] = r.choice((2, maxc, r.randint(2, maxc)))
        elif c < 0.6 and ft in ("I", "O"):
            w0 = a.get("word") or 0
            left = (n - elem) * iow - w0
            if left >= 2:
                a["count"] = r.randint(2, min(left, 20))
        return a
    return None


def gen_value(r, a):
    ft = a["ft"]
    if a["form"] in ("bit", "bfn"):
        return r.random() < 0.5
    def one():
        if ft == "F":
            return struct.unpack("<f", struct.pack("<f", r.uniform(-1e6, 1e6)))[0]
        if ft == "L":
            return r.choice((0, -1, 2**31 - 1, -2**31, r.randrange(-2**31, 2**31)))
        return r.choice((0, -1, 32767, -32768, r.randrange(-32768, 32768)))
    n = a.get("count")
    if n:
        return [one() for _ in range(n + r.choice((0, 0, 2)))]
    return one()


def gen_invalid(r, table):
    kind = r.choice(("bad_type", "file_oob", "elem_oob", "bit_oob", "bfn_oob", "elem_4digit", "bit_3digit"))
    nfile = r.choice([int(k) for k, f in table.items() if f["type"] == "N"])
    if kind == "bad_type":
        return r.choice(("X7:0", "D9:1", "Q3:2", "Z1:1", "M0:1.2", "G7:3")), kind
    if kind == "file_oob":
        return r.choice(("N0:1", "N256:0", "N999:1", "F0:0", "B300/5", "L0:2")), kind
    if kind == "elem_oob":
        return r.choice((f"N{nfile}:256", f"N{nfile}:300", f"N{nfile}:999", "S:256", "I:256", "O:300.0")), kind
    if kind == "bit_oob":
        return r.choice((f"N{nfile}:0/16", f"N{nfile}:1/31", f"N{nfile}:1/99", "S:1/16", "I:1.0/16")), kind
    if kind == "bfn_oob":
        return r.choice(("B3/4096", "B3/5000", "B3/9999")), kind
    if kind == "elem_4digit":
        return r.choice((f"N{nfile}:1000", f"N{nfile}:2550", "F8:1234")), kind
    return r.choice((f"N{nfile}:0/100", f"N{nfile}:2/150", "B3:1/160")), kind


def gen(seed, tier, prop="C18"):
    r = Sim(seed).stream("gen")
    table, iow = gen_table(r)
    layout = r.choice(("compact", "compact", "clx"))
    world = {"layout": layout, "ip": "10.0.0.1", "table": table, "io_words": iow,
             "policy": {"large_fo": "refuse"} if r.random() < 0.8 else {}, "choices": {"handles": r.choice(("random32", "small"))}}
    path = r.choice(("10.0.0.1", "10.0.0.1/0"))
    if layout == "clx":
        world.update(slots=4, slot=r.choice((0, 2, 3)), enet_slot=1)
        path = f"10.0.0.1/{world['slot']}"
    sc = {"engine": "slc", "seed": seed, "prop": prop, "world": world,
          "net": {"chunk": r.choice(("whole", "mixed", "random")), "send": r.choice(("all", "mixed")), "latency": "small"},
          "driver": {"cls": "SLCDriver", "path": path, "log": "verbose" if r.random() < 0.1 else "off",
                     "seq_advance": r.choice((0, 0, 65530, 65535 - r.randint(0, 20)))},
          "ops": [{"id": "o0", "kind": "open"}], "faults": []}
    n = r.randint(2, 7)
    for i in range(n):
        oid = f"o{i + 1}"
        c = r.random()
        if prop == "C18" and c < 0.2:
            text, kind = gen_invalid(r, table)
            k = r.choice(("read", "write"))
            op = {"id": oid, "kind": k, "addrs": [{"text": text, "ast": None, "invalid": kind}]}
            if k == "write":
                op["values"] = [r.choice((1, True, 0))]
            sc["ops"].append(op)
            continue
        k = "read" if c < 0.6 else "write"
        m = r.choice((1, 1, 2, 3))
        addrs, vals = [], []
        taken = []
        for _ in range(m):
            a = gen_addr(r, table, iow, k == "write")
            if a is None:
                continue
            if k == "write":
                fnum, off = locate(a, iow)
                nb = (a.get("count") or 1) * vsize(a["ft"]) if a["form"] == "word" else 2
                if any(t[0] == fnum and t[1] < off + nb and off < t[2] for t in taken):
                    continue
                taken.append((fnum, off, off + nb))
                vals.append(gen_value(r, a))
            addrs.append({"text": render(a)[0], "ast": a, "invalid": None})
        if not addrs:
            continue
        op = {"id": oid, "kind": k, "addrs": addrs}
        if k == "write":
            op["values"] = vals
        if prop == "C18" and r.random() < 0.06:
            # every command of this call is refused: by the controller (remote status, high nibble) or by a
            # gateway on the way (local status, low nibble)
            op["inject"] = [{"where": "pccc", "match": {}, "sticky": True,
                             "sts": r.choice((0x01, 0x02, 0x05, 0x0F, 0x10, 0x30, 0x50, 0xF0, r.randrange(1, 256)))}]
        sc["ops"].append(op)
    sc["ops"].append({"id": "oz", "kind": "close"})
    return sc


def directed(tier, prop="C18"):
    """every Bf/n bit number 0..4095 (thorough; every 7th + boundaries in quick), every element 0..255 of a
    full N file, every bit 0..15 - read and write"""
    if prop != "C18":
        return []
    out = []
    table = {"0": {"type": "O", "data": "00" * 64}, "1": {"type": "I", "data": "00" * 64}, "2": {"type": "S", "data": "00" * 132},
             "3": {"type": "B", "data": bytes((i * 37 + 11) % 256 for i in range(512)).hex()},
             "7": {"type": "N", "data": bytes((i * 73 + 5) % 256 for i in range(512)).hex()},
             "255": {"type": "N", "data": bytes((i * 29 + 1) % 256 for i in range(512)).hex()}}
    world = {"layout": "compact", "ip": "10.0.0.1", "table": table, "io_words": 4, "policy": {"large_fo": "refuse"},
             "choices": {"handles": "small"}}

    def scen(ops, seed):
        return {"engine": "slc", "seed": seed, "prop": "C18", "world": copy.deepcopy(world),
                "net": {"chunk": "whole", "send": "all", "latency": "zero"},
                "driver": {"cls": "SLCDriver", "path": "10.0.0.1", "log": "off", "seq_advance": 0},
                "ops": [{"id": "o0", "kind": "open"}] + ops + [{"id": "oz", "kind": "close"}], "faults": []}
    step = 1 if tier == "thorough" else 7
    ns = sorted(set(range(0, 4096, step)) | {15, 16, 17, 31, 32, 255, 256, 4079, 4080, 4095})
    for chunk in range(0, len(ns), 24):
        ops = []
        for j, nbit in enumerate(ns[chunk:chunk + 24]):
            a = {"ft": "B", "file": 3, "elem": nbit // 16, "form": "bfn", "bit": nbit % 16, "count": None}
            ops.append({"id": f"r{j}", "kind": "read", "addrs": [{"text": render(a)[0], "ast": a, "invalid": None}]})
            ops.append({"id": f"w{j}", "kind": "write", "addrs": [{"text": render(a)[0], "ast": a, "invalid": None}],
                        "values": [nbit % 3 != 0]})
        out.append(scen(ops, 9000 + chunk))
    for fnum in (7, 255):
        for chunk in range(0, 256, 32):
            ops = []
            for e in range(chunk, chunk + 32):
                a = {"ft": "N", "file": fnum, "elem": e, "form": "word", "bit": None, "count": None}
                ops.append({"id": f"r{e}", "kind": "read", "addrs": [{"text": render(a)[0], "ast": a, "invalid": None}]})
                b = dict(a, form="bit", bit=e % 16)
                ops.append({"id": f"w{e}", "kind": "write", "addrs": [{"text": render(b)[0], "ast": b, "invalid": None}],
                            "values": [e % 2 == 0]})
                ops.append({"id": f"v{e}", "kind": "write", "addrs": [{"text": render(a)[0], "ast": a, "invalid": None}],
                            "values": [(e * 257) % 65536 - 32768]})
            out.append(scen(ops, 9500 + fnum + chunk))
    return out


def shrink_candidates(sc):
    out = []
    ops = sc["ops"]
    for i in range(len(ops) - 1, 0, -1):
        c = copy.deepcopy(sc)
        del c["ops"][i]
        out.append(c)
    for i, op in enumerate(ops):
        if op["kind"] in ("read", "write") and len(op["addrs"]) > 1:
            for k in range(len(op["addrs"])):
                c = copy.deepcopy(sc)
                del c["ops"][i]["addrs"][k]
                if "values" in op:
                    del c["ops"][i]["values"][k]
                out.append(c)
    if sc["net"].get("chunk") != "whole" or sc["net"].get("send") != "all":
        c = copy.deepcopy(sc)
        c["net"] = {"chunk": "whole", "send": "all", "latency": "zero"}
        out.append(c)
    if sc["driver"].get("seq_advance"):
        c = copy.deepcopy(sc)
        c["driver"]["seq_advance"] = 0
        out.append(c)
    if sc["world"].get("layout") != "compact":
        c = copy.deepcopy(sc)
        c["world"]["layout"] = "compact"
        c["driver"]["path"] = "10.0.0.1"
        out.append(c)
    return out


def sample(sc):
    return {"seed": sc["seed"], "layout": sc["world"]["layout"], "path": sc["driver"]["path"],
            "files": {k: (v["type"], len(v["data"]) // 2) for k, v in sc["world"]["table"].items()},
            "ops": [{"kind": o["kind"], "addrs": [a["text"] for a in o.get("addrs", [])], "values": str(o.get("values"))[:60]}
                    for o in sc["ops"]][:8]}
