"""E4 - replies with any status words, and truncated / corrupted replies (C13).

A *device fault* is applied to the n-th reply frame of one operation by the simulated device
(this models a misbehaving or refusing device, not a misbehaving TCP):
  {"type": "status", "status": S, "ext": [w..], "keep_data": bool}     message-router reply status
  {"type": "multi", "statuses": [S0, S1, ..], "ext": {i: [w]}}          per-service statuses of a 0x0A reply
  {"type": "multi_count", "count": n}                                   reply count field of a 0x0A reply
  {"type": "encap", "status": S}                                        header-only encapsulation error
  {"type": "truncate", "at": n, "fix_len": bool}
  {"type": "bitflip", "bits": [bit positions]}
  {"type": "garbage", "len": n, "keep_header": bool}
An independent classifier parses the *delivered* bytes and decides what the public call must report.

Scenario: {"engine":"replyfault","seed","kind": request kind, "world"..., "fault": {"nth": k, "mut": {...}}}
request kinds: generic_c generic_u generic_us read1 readfrag write1 writefrag rmw multiread multiwrite
               upload_page upload_template upload_template_attrs register list_identity plc_info
"""
import copy
import struct

from ..kernel import Sim
from .. import session, harness, worldgen
from ..device import GenericObject
from ..refmodel import Ref, render
from ..wire import parse_cpf, build_cpf, parse_encap_header, build_encap, WireError
from .logix import base_world

PROPS = ("C13",)
GEN_TAKES_PROP = True

KINDS = ("generic_c", "generic_u", "generic_us", "read1", "readfrag", "write1", "writefrag", "rmw", "multiread",
         "multiwrite", "upload_page", "upload_template", "upload_template_attrs", "register", "list_identity", "plc_info",
         "discover", "readbit", "readboolarr")
# calls that answer with Tag objects (an error reply makes these falsy; the other calls may raise a library exception)
TAG_KINDS = {"generic_c", "generic_u", "generic_us", "read1", "readfrag", "write1", "writefrag", "rmw", "multiread",
             "multiwrite", "readbit", "readboolarr"}
# services for which status 6 means "more to come" and the library must continue
CONTINUE_6 = {"readfrag", "upload_page", "upload_template"}
# members of the library's MULTI_PACKET_SERVICES where the statement does not decide what 6 means
EITHER_6_SERVICES = {0x52, 0x53, 0x55, 0x0A, 0x03}


# ---------------------------------------------------------------------------
def split_frame(frame):
    cmd, length, session_h, status, ctx8, options = parse_encap_header(frame)
    return cmd, session_h, status, ctx8, frame[24:]


def mutate(frame, info, mut):
    t = mut["type"]
    cmd, sess, est, ctx8, body = split_frame(frame)
    if t == "encap":
        return build_encap(cmd, sess, mut["status"], ctx8, b"")
    if t == "truncate":
        cut = frame[:mut["at"]]
        if mut.get("fix_len") and len(cut) >= 24:
            cut = cut[:2] + struct.pack("<H", len(cut) - 24) + cut[4:]
        return cut
    if t == "bitflip":
        b = bytearray(frame)
        for bit in mut["bits"]:
            if bit // 8 < len(b):
                b[bit // 8] ^= 1 << (bit % 8)
        return bytes(b)
    if t == "garbage":
        r = Sim(mut.get("seed", 1)).stream("garbage")
        g = bytes(r.randrange(256) for _ in range(mut["len"]))
        if mut.get("keep_header"):
            return frame[:2] + struct.pack("<H", len(g)) + frame[4:24] + g
        return g
    # message-router level mutations need the CPF
    iface, tmo, items = parse_cpf(body)
    (at, ad), (dt, dd) = items
    pre = dd[:2] if cmd == 0x70 else b""
    mr = dd[2:] if cmd == 0x70 else dd
    svc = mr[0]
    nd = 4 + 2 * mr[3]
    data = mr[nd:]
    if t == "status":
        ext = mut.get("ext", [])
        if mut.get("service") is not None:
            # the reply names another service than the one that was asked (or none: reply bit cleared)
            svc = (svc & 0x7F) if mut["service"] == "clear7" else mut["service"]
        new = bytes([svc, 0, mut["status"], len(ext)]) + b"".join(struct.pack("<H", w) for w in ext)
        if mut.get("keep_data"):
            new += data
    elif t == "multi":
        count = struct.unpack_from("<H", data, 0)[0]
        offs = list(struct.unpack_from("<%dH" % count, data, 2))
        parts = [data[offs[i]:offs[i + 1] if i + 1 < count else len(data)] for i in range(count)]
        outp = []
        for i, p in enumerate(parts):
            st = mut["statuses"][i] if i < len(mut["statuses"]) else p[2]
            if st == p[2]:
                outp.append(p)
                continue
            ext = mut.get("ext", {}).get(str(i), [])
            q = bytes([p[0], 0, st, len(ext)]) + b"".join(struct.pack("<H", w) for w in ext)
            if st in (0, 6):
                q += p[4 + 2 * p[3]:]
            outp.append(q)
        o = 2 + 2 * count
        hdr = struct.pack("<H", count)
        for p in outp:
            hdr += struct.pack("<H", o)
            o += len(p)
        overall = 0 if all(p[2] == 0 for p in outp) else 0x1E
        new = bytes([svc, 0, overall, 0]) + hdr + b"".join(outp)
    elif t == "multi_count":
        new = mr[:nd] + struct.pack("<H", mut["count"]) + data[2:]
    else:
        raise ValueError(t)
    out = build_cpf([(at, ad), (dt, pre + new)], iface, tmo)
    full = build_encap(cmd, sess, mut.get("encap_status", est), ctx8, out)
    if mut.get("then_truncate") is not None and mut["then_truncate"] < len(full):
        cut = full[:mut["then_truncate"]]
        full = cut[:2] + struct.pack("<H", len(cut) - 24) + cut[4:]
    return full


def classify(frame, cmd_expected):
    """independent classification of the delivered bytes ->
    dict(cls: 'ok'|'status'|'encap'|'short'|'malformed', status, ext, service)"""
    # "too short to contain its status words" is a statement about the byte count: encapsulation status at
    # 8..12, CIP general status at 42 (SendRRData) / 48 (SendUnitData)
    need = {0x65: 12, 0x63: 12, 0x6F: 43, 0x70: 49}.get(cmd_expected, 24)
    if len(frame) == 24:
        # the header-only error reply the statement names: complete as it stands, its status word is the one in the header
        cmd, length, sess, est, ctx8, opts = parse_encap_header(frame)
        if est != 0 and length == 0 and (cmd_expected is None or cmd == cmd_expected):
            return {"cls": "encap", "status": est, "body": False}
    if len(frame) < need:
        return {"cls": "short"}
    if len(frame) < 24:
        return {"cls": "malformed", "why": "header"}
    cmd, length, sess, est, ctx8, opts = parse_encap_header(frame)
    if cmd_expected is not None and cmd != cmd_expected:
        # the command echo is not among the status words the statement speaks of; the layout of the reply is
        # that of the outstanding request
        if cmd not in (0x63, 0x65, 0x6F, 0x70):
            return {"cls": "malformed", "why": "command"}
        cmd = cmd_expected
    if len(frame) - 24 != length:
        return {"cls": "malformed", "why": "length"}
    if est != 0:
        # an encapsulation error reply is header-only (Vol 2: no data follows an error status); a frame that
        # claims an error AND carries a body is not a well-formed reply
        return {"cls": "encap", "status": est, "body": length > 0}
    if cmd == 0x65:
        return {"cls": "ok"}        # the status word of RegisterSession is the one in the header
    if cmd == 0x63:
        return {"cls": "ok"} if length > 0 else {"cls": "malformed", "why": "no-items"}
    if cmd not in (0x6F, 0x70):
        return {"cls": "malformed", "why": "command"}
    try:
        iface, tmo, items = parse_cpf(frame[24:])
    except WireError:
        return {"cls": "malformed", "why": "cpf"}
    if len(items) != 2:
        return {"cls": "malformed", "why": "items"}
    dd = items[1][1]
    mr = dd[2:] if cmd == 0x70 else dd
    if len(mr) < 4:
        return {"cls": "malformed", "why": "mr"}
    svc, st, nx = mr[0], mr[2], mr[3]
    if len(mr) < 4 + 2 * nx:
        return {"cls": "malformed", "why": "ext"}
    ext = [struct.unpack_from("<H", mr, 4 + 2 * i)[0] for i in range(nx)]
    if not (svc & 0x80):
        return {"cls": "malformed", "why": "reply-bit"}
    return {"cls": "ok" if st == 0 else "status", "status": st, "ext": ext, "service": svc & 0x7F,
            "data": mr[4 + 2 * nx:]}


def names_status(err, status, ext):
    """does the error text name the CIP status (table text or hex code) and the extended status if tabled?"""
    from pycomm3.cip import SERVICE_STATUS, EXTEND_CODES
    if not isinstance(err, str) or not err.strip():
        return "empty-error"
    t = SERVICE_STATUS.get(status)
    low = err.lower()
    if not ((t and t in err) or f"{status:02x}" in low or f"0x{status:x}" in low):
        return "unnamed-status"
    if len(ext) == 1:
        try:
            et = EXTEND_CODES[status][ext[0]]
        except Exception:  # noqa
            et = None
        if et and et not in err:
            return "unnamed-extended"
    return None


# ---------------------------------------------------------------------------
def build(sc):
    env = session.build(sc)
    tgt = env.ctl if env.ctl is not None else env.entry
    tgt.generic[(0x300, 1)] = GenericObject(reply_data=b"\x11\x22\x33\x44")
    env.entry.generic.setdefault((0x300, 1), GenericObject(reply_data=b"\x11\x22\x33\x44"))
    return env


def run_slc(sc):
    """SLC read / write with a device fault on the PCCC reply (STS byte, CIP status, encapsulation error,
    truncation, corruption)"""
    from . import slc as slc_engine
    env = slc_engine.build(sc)
    sim, net, world = env.sim, env.net, env.world
    hits = world.hits
    kind = sc["kind"]
    fault = sc["fault"]
    mut = fault["mut"]
    state = {"armed": False, "delivered": None}

    def hook(frame, info):
        if not state["armed"] or state["delivered"] is not None or info.get("service") != 0x4B:
            return frame
        try:
            if mut["type"] == "pccc_sts":
                b = bytearray(frame)
                if len(b) > 58:
                    b[58] = mut["sts"]
                    if mut.get("drop_data"):
                        b = b[:61]
                        b[2:4] = struct.pack("<H", len(b) - 24)
                        # fix the connected data item length (offset 42..43)
                        b[42:44] = struct.pack("<H", len(b) - 44)
                new = bytes(b)
            else:
                new = mutate(frame, info, mut)
        except Exception:  # noqa
            new = frame
        state["delivered"] = new
        sim.fired("reply:" + mut["type"])
        return new if len(new) > 0 else None

    for m in {env.entry, env.slc}:
        m.reply_hook = hook
    f = dict(kind=kind, reply=mut["type"])
    evals = 0
    with harness.Seams(sim, net, sc["driver"].get("log", "off")):
        lib = harness.lib()
        drv = lib.SLCDriver(sc["driver"]["path"])
        session.begin_op(env, "o0")
        o0, r0 = harness.call(sim, drv.open)
        if o0 == "ok" and r0:
            # open the CIP connection fault-free first
            harness.call(sim, drv.read, "N7:0")
            session.begin_op(env, "o1")
            state["armed"] = True
            if kind == "slc_read":
                outcome, res = harness.call(sim, drv.read, sc["op"]["addr"])
            else:
                outcome, res = harness.call(sim, drv.write, (sc["op"]["addr"], sc["op"]["value"]))
            state["armed"] = False
            evals = 1
            if outcome == "budget":
                hits.hit("C13", "reply.robust", f"{kind}: call did not terminate after a {mut['type']} reply", outcome="hang", **f)
            elif outcome.startswith("foreign"):
                hits.hit("C13", "reply.robust", f"{kind}: {type(res).__name__}: {res} escaped after a {mut['type']} reply "
                         f"({desc(mut)})", outcome="foreign-exception:" + type(res).__name__, **f)
            elif state["delivered"] is not None and outcome == "ok":
                d = state["delivered"]
                c = classify(d, None)
                ok_tag = res.error is None and res.value is not None
                sts = d[58] if len(d) > 58 else None
                short = len(d) < 59
                bad_status = c["cls"] in ("encap", "status") and mut["type"] in ("encap", "status") and not mut.get("keep_data")
                if mut["type"] == "pccc_sts" and mut["sts"] != 0:
                    if ok_tag:
                        hits.hit("C13", "reply.classify", f"{kind}: PCCC reply with STS 0x{mut['sts']:02x} reported as success: "
                                 f"{str(res)[:100]}", outcome="truthy-on-error", status="pccc", **f)
                    elif not (isinstance(res.error, str) and res.error.strip()):
                        hits.hit("C13", "reply.text", f"{kind}: STS 0x{mut['sts']:02x} gave an empty error text", outcome="empty-error",
                                 status="pccc", **f)
                elif short and ok_tag:
                    hits.hit("C13", "reply.classify", f"{kind}: a reply of {len(d)} bytes, too short to hold its status byte, was "
                             f"reported as success: {str(res)[:100]}", outcome="truthy-on-short", **f)
                elif bad_status and ok_tag:
                    hits.hit("C13", "reply.classify", f"{kind}: error reply ({c}) reported as success: {str(res)[:100]}",
                             outcome="truthy-on-error", status=c["cls"], **f)
        session.begin_op(env, "o2")
        o2, r2 = harness.call(sim, drv.close)
        if o2 not in ("ok", "library"):
            hits.hit("C13", "reply.robust", f"close() after the faulty reply -> {o2}: {r2!r}", kind=kind, reply=mut["type"],
                     outcome=o2 if o2 == "budget" else "foreign-exception:" + type(r2).__name__)
    shape = (kind, mut["type"], mut.get("sts", mut.get("status", mut.get("at", 0))) if mut["type"] != "truncate" else mut["at"] // 8)
    return {"hits": hits.items, "digest": sim.digest(), "shape": shape, "probes": dict(sim.probes),
            "faults": dict(sim.faults_fired), "frames": world.frames_in, "calls": 4, "vtime_us": sim.now_us,
            "evals": {"C13": evals}, "nontrivial": state["delivered"] is not None,
            "events": sim.events if sim.keep_events else None}


SLC_TABLE = {"0": {"type": "O", "data": "00" * 64}, "1": {"type": "I", "data": "00" * 64}, "2": {"type": "S", "data": "00" * 132},
             "3": {"type": "B", "data": "5a" * 64}, "7": {"type": "N", "data": "1234" * 32}, "8": {"type": "F", "data": "0000803f" * 8}}


def slc_scenario(kind, seed, mut):
    addr, value = ("N7:3", 77) if seed % 3 == 0 else (("B3/21", True) if seed % 3 == 1 else ("F8:2", 1.5))
    if kind == "slc_read" and seed % 5 == 0:
        addr = "N7:1{4}"
    return {"engine": "replyfault", "seed": seed, "kind": kind,
            "world": {"layout": "compact", "ip": "10.0.0.1", "table": copy.deepcopy(SLC_TABLE), "io_words": 4,
                      "policy": {"large_fo": "refuse"}, "choices": {"handles": "small"}},
            "net": {"chunk": "whole", "send": "all", "latency": "zero"},
            "driver": {"cls": "SLCDriver", "path": "10.0.0.1", "log": "off", "seq_advance": 0},
            "op": {"addr": addr, "value": value}, "fault": {"nth": 0, "mut": mut}, "faults": []}


def run(sc):
    if sc["kind"].startswith("slc_"):
        return run_slc(sc)
    env = build(sc)
    sim, net, world = env.sim, env.net, env.world
    hits = world.hits
    kind = sc["kind"]
    fault = sc["fault"]
    state = {"armed": False, "n": 0, "delivered": None, "orig": None, "info": None}
    want_kind = sc.get("reply_kind")       # which replies count: by MR service

    def hook(frame, info):
        if state["armed"] and state["delivered"] is not None and info.get("service") == state["info"].get("service"):
            state["after"] = state.get("after", 0) + 1
        if not state["armed"] or state["delivered"] is not None:
            return frame
        svc = info.get("service")
        if sc.get("count_service") is not None and svc != sc["count_service"]:
            return frame
        if sc.get("count_kind") is not None and info.get("kind") != sc["count_kind"]:
            return frame
        k = state["n"]
        state["n"] += 1
        if k != fault["nth"]:
            return frame
        try:
            new = mutate(frame, info, fault["mut"])
        except Exception as e:  # noqa - a mutation that does not apply to this frame: deliver unchanged
            state["delivered"] = frame
            state["orig"] = frame
            state["info"] = dict(info, inapplicable=repr(e))
            return frame
        state["delivered"] = new
        state["orig"] = frame
        state["info"] = info
        sim.fired("reply:" + fault["mut"]["type"])
        return new if len(new) > 0 else None

    for m in [env.entry] + ([env.ctl] if env.ctl is not None and env.ctl is not env.entry else []):
        m.reply_hook = hook
    project = sc["world"].get("project")
    ref = Ref(project) if project else None
    evals = 0
    shape = []
    outcome = res = None
    with harness.Seams(sim, net, sc["driver"].get("log", "off")):
        drv = session.make_driver(sc, env)
        lib = harness.lib()
        session.begin_op(env, "o0")
        if kind == "list_identity":
            state["armed"] = True
            o0, r0 = harness.call(sim, lib.CIPDriver.list_identity, "10.0.0.1")
        elif kind == "discover":
            # the only device on the broadcast domain answers the ListIdentity broadcast with the faulted reply:
            # a non-empty result means that reply was taken for a success
            state["armed"] = True
            o0, r0 = harness.call(sim, lib.CIPDriver.discover)
        else:
            if kind in ("register", "upload_page", "upload_template", "upload_template_attrs", "plc_info"):
                state["armed"] = True
            o0, r0 = harness.call(sim, drv.open)
        pre_failed = False
        if not state["armed"]:
            if o0 != "ok" or not r0:
                hits.hit("C13", "setup", f"fault-free open() -> {o0}: {r0!r}", what="open")
                pre_failed = True
        else:
            outcome, res = o0, r0
        if not pre_failed and not state["armed"]:
            session.begin_op(env, "o1")
            state["armed"] = True
            op = sc["op"]
            if kind.startswith("generic"):
                mode = {"generic_c": "connected", "generic_u": "unconnected", "generic_us": "unconnected_send"}[kind]
                outcome, res = harness.call(sim, drv.generic_message, service=op.get("service", 0x0E), class_code=0x300,
                                            instance=1, attribute=1, connected=mode == "connected",
                                            unconnected_send=mode == "unconnected_send",
                                            data_type=getattr(lib, op["data_type"]) if op.get("data_type") else None)
            elif kind in ("read1", "readfrag", "multiread", "readbit", "readboolarr"):
                outcome, res = harness.call(sim, drv.read, *op["texts"])
            elif kind in ("write1", "writefrag", "rmw", "multiwrite"):
                outcome, res = harness.call(sim, drv.write, *[(t, v) for t, v in zip(op["texts"], op["values"])])
            else:
                raise ValueError(kind)
        state["armed"] = False
        if not pre_failed:
            evals += 1
            judge(sc, env, kind, fault, state, outcome, res, hits, ref)
        if kind == "register" and not pre_failed and state["delivered"] is not None and fault["mut"]["type"] == "encap":
            # a refused registration must not leave anything behind: opening again registers a session
            session.begin_op(env, "o1b")
            o1b, r1b = harness.call(sim, drv.open)
            if o1b == "ok" and r1b and not env.entry.sessions:
                hits.hit("C13", "reply.classify", f"register: after a RegisterSession reply with encapsulation status "
                         f"0x{fault['mut']['status']:x} a second open() returned True although no session is registered at "
                         f"the target", kind=kind, reply="encap", outcome="truthy-on-error", status="stale-session")
        # afterwards: whatever happened, the driver must stay usable in the library's own terms
        session.begin_op(env, "o2")
        o2, r2 = harness.call(sim, drv.close)
        if o2 not in ("ok", "library"):
            hits.hit("C13", "reply.robust", f"close() after the faulty reply -> {o2}: {r2!r}", kind=kind,
                     reply=fault["mut"]["type"], outcome=o2 if o2 == "budget" else "foreign-exception:" + type(r2).__name__)
        shape = (kind, fault["mut"]["type"], outcome, state["delivered"] is not None,
                 fault["mut"].get("status", -1) if fault["mut"]["type"] in ("status", "encap") else
                 (fault["mut"].get("at", 0) // 8 if fault["mut"]["type"] == "truncate" else 0))
    return {"hits": hits.items, "digest": sim.digest(), "shape": shape, "probes": dict(sim.probes),
            "faults": dict(sim.faults_fired), "frames": world.frames_in, "calls": 3, "vtime_us": sim.now_us,
            "evals": {"C13": evals}, "nontrivial": state["delivered"] is not None,
            "events": sim.events if sim.keep_events else None}


def judge(sc, env, kind, fault, state, outcome, res, hits, ref):
    mut = fault["mut"]
    mt = mut["type"]
    f = dict(kind=kind, reply=mt)
    # robustness first: only library exceptions, within budget
    if outcome == "budget":
        hits.hit("C13", "reply.robust", f"{kind}: call did not terminate after a {mt} reply", outcome="hang", **f)
        return
    if outcome.startswith("foreign"):
        hits.hit("C13", "reply.robust", f"{kind}: {type(res).__name__}: {res} escaped after a {mt} reply "
                 f"({desc(mut)})", outcome="foreign-exception:" + type(res).__name__, **f)
        return
    if state["delivered"] is None or state["info"].get("inapplicable"):
        return      # the fault position was not reached: nothing to judge
    if mt == "status" and mut.get("service") is not None:
        return      # a reply to a service that was not asked: only robustness (judged above) is demanded
    delivered = state["delivered"]
    expected_cmd = {"register": 0x65, "list_identity": 0x63, "discover": 0x63, "generic_u": 0x6F, "generic_us": 0x6F,
                    "plc_info": 0x6F}.get(kind, 0x70)
    c = classify(delivered, expected_cmd)
    results = res if isinstance(res, list) else [res]
    truthy_any = outcome == "ok" and any(bool(x) for x in results if x is not None) and res is not False
    if kind in ("register", "list_identity", "discover", "upload_page", "upload_template", "upload_template_attrs", "plc_info"):
        truthy_any = outcome == "ok" and bool(res)
    if c["cls"] == "short":
        if truthy_any and not multi_other_ok(kind, results):
            hits.hit("C13", "reply.classify", f"{kind}: a reply of {len(delivered)} bytes, too short to hold its status words, "
                     f"was reported as success: {str(res)[:100]}", outcome="truthy-on-short", **f)
        return
    if c["cls"] == "malformed":
        return      # only robustness is demanded of arbitrary bytes
    if mt in ("bitflip", "garbage", "truncate") and c["cls"] == "ok":
        return      # corruption did not touch the status words; nothing more to decide
    # ---- well-formed replies: classification must follow the status words --------
    if c["cls"] == "encap":
        if outcome != "ok" and kind in TAG_KINDS and mt == "encap":
            # a well-formed error reply is answered with a falsy result that carries the text, not with an exception
            hits.hit("C13", "reply.classify", f"{kind}: header-only encapsulation error 0x{c['status']:x} made the call raise "
                     f"{type(res).__name__}: {res} instead of returning a falsy result", outcome="exception-on-error",
                     status="encap", **f)
            return
        if outcome != "ok":
            bad = []
        elif kind in ("multiread", "multiwrite"):
            bad = [x for x in results if bool(x)]
        else:
            bad = [1] if truthy_any else []
        if bad:
            hits.hit("C13", "reply.classify", f"{kind}: header-only encapsulation error 0x{c['status']:x} reported as success: "
                     f"{str(res)[:100]}", outcome="truthy-on-error", status="encap", **f)
        elif outcome == "ok" and kind not in ("register", "list_identity", "discover") and not all_have_error(results):
            hits.hit("C13", "reply.classify", f"{kind}: encapsulation error 0x{c['status']:x} gave an empty error text",
                     outcome="empty-error", status="encap", **f)
        return
    if mt in ("multi", "multi_count"):
        judge_multi(sc, kind, mut, c, outcome, results, hits, f)
        return
    st = c.get("status", 0)
    ext = c.get("ext", [])
    if c["cls"] == "ok":
        # status 0: must be reported as success, unless the scenario's data could legitimately fail to decode
        if mt == "status":
            return      # the device turned another status into 0: its data may legitimately be incomplete
        if not truthy_any:
            hits.hit("C13", "reply.classify", f"{kind}: reply with status 0 reported as failure: {str(res)[:120]}",
                     outcome="falsy-on-success", status="0", **f)
        return
    if st == 0x1E and kind in ("multiread", "multiwrite"):
        return      # 'embedded service error': the verdict is in the embedded replies, which this fault did not define
    six = st == 6
    if six and mt in ("bitflip", "garbage", "truncate"):
        return      # the corruption may have hit the data as well: continuation cannot be judged
    if six and mut.get("type") == "status" and not mut.get("keep_data"):
        return      # "partial transfer" that transfers nothing: continuing and giving up are both defensible
    if six and kind in CONTINUE_6:
        # 6 is success-and-continue: the transfer must go on (what the device answers next decides the end result)
        if not truthy_any and not state.get("after"):
            hits.hit("C13", "reply.classify", f"{kind}: status 6 (partial transfer) on a continuing service was not continued: "
                     f"{outcome} {str(res)[:120]}", outcome="falsy-on-success", status="6", **f)
        return
    if six and c.get("service") in EITHER_6_SERVICES:
        return
    if truthy_any:
        hits.hit("C13", "reply.classify", f"{kind}: reply with general status 0x{st:02x} ext {ext} was reported as success: "
                 f"{str(res)[:120]}", outcome="truthy-on-error", status=("6" if six else "nonzero"), **f)
        return
    if outcome == "ok" and kind not in ("register", "list_identity", "discover", "upload_page", "upload_template",
                                        "upload_template_attrs", "plc_info"):
        for x in results:
            if x is None:
                continue
            why = names_status(x.error, st, ext)
            if why:
                hits.hit("C13", "reply.text", f"{kind}: status 0x{st:02x} ext {ext}: error text {x.error!r} -> {why}",
                         outcome=why, status=("tabled" if st in status_table() else "untabled"), **f)
                break
    elif outcome == "library":
        if not str(res).strip():
            hits.hit("C13", "reply.text", f"{kind}: library exception with empty text", outcome="empty-error",
                     status="exception", **f)


def status_table():
    from pycomm3.cip import SERVICE_STATUS
    return SERVICE_STATUS


def multi_other_ok(kind, results):
    return False


def all_have_error(results):
    return all((x is None) or (isinstance(x.error, str) and x.error.strip()) for x in results)


def judge_multi(sc, kind, mut, c, outcome, results, hits, f):
    if mut["type"] == "multi_count":
        return      # robustness only (already judged): the count field lies
    sts = mut["statuses"]
    if outcome != "ok":
        return
    n = len(sc["op"]["texts"])
    if len(results) != n:
        return
    for i, x in enumerate(results):
        if i >= len(sts):
            break
        st = sts[i]
        if st == 0:
            if not bool(x):
                hits.hit("C13", "reply.classify", f"{kind}: service {i} has status 0 inside a multi-service reply with vector "
                         f"{sts} but its Tag is falsy: {str(x)[:100]}", outcome="falsy-on-success", status="0", **f)
        elif st == 6:
            continue
        else:
            if bool(x):
                hits.hit("C13", "reply.classify", f"{kind}: service {i} has status 0x{st:02x} inside a multi-service reply "
                         f"but its Tag is truthy: {str(x)[:100]}", outcome="truthy-on-error", status="nonzero", **f)
            else:
                why = names_status(x.error, st, mut.get("ext", {}).get(str(i), []))
                if why:
                    hits.hit("C13", "reply.text", f"{kind}: embedded status 0x{st:02x}: error text {x.error!r} -> {why}",
                             outcome=why, status=("tabled" if st in status_table() else "untabled"), **f)


def desc(mut):
    return ", ".join(f"{k}={v}" for k, v in mut.items() if k != "type")[:80]


# ---------------------------------------------------------------------------
TAGS = [{"name": "d", "type": "DINT", "dims": []}, {"name": "e", "type": "INT", "dims": [4]},
        {"name": "big", "type": "DINT", "dims": [420]}, {"name": "w", "type": "DINT", "dims": []},
        {"name": "s", "type": "UD", "dims": []}, {"name": "ba", "type": "DWORD", "dims": [2]}]
TYPES = {"UD": {"name": "UD", "template_id": 0x123, "handle": 0x4242, "size": 8, "align": 4, "string_cap": None,
                "predefined": False, "members": [
                    {"name": "a", "type": "DINT", "array": 0, "offset": 0, "bit": None, "hidden": False},
                    {"name": "b", "type": "INT", "array": 0, "offset": 4, "bit": None, "hidden": False}]}}


def base_scenario(kind, seed, fw=32):
    world = base_world(copy.deepcopy(TAGS), types=copy.deepcopy(TYPES), large=False, fw=fw, frag=200)
    world["choices"]["page"] = 2
    sc = {"engine": "replyfault", "seed": seed, "kind": kind, "world": world,
          "net": {"chunk": "whole", "send": "all", "latency": "zero"},
          "driver": {"cls": "LogixDriver", "path": "10.0.0.1", "init_tags": True, "init_program_tags": False,
                     "log": "off", "seq_advance": 0}, "op": {}, "faults": []}
    if kind.startswith("generic"):
        sc["op"] = {"service": 0x0E}
        sc["count_service"] = 0x0E
    elif kind == "read1":
        sc["op"] = {"texts": ["d"]}
        sc["count_service"] = 0x4C
    elif kind == "readbit":
        # a bit of an integer: the library reads the word and picks the bit out of the reply itself
        sc["op"] = {"texts": ["w.3"]}
        sc["count_service"] = 0x4C
    elif kind == "readboolarr":
        sc["op"] = {"texts": [("ba[5]", "ba[0]{40}", "ba[33]")[seed % 3]]}
        sc["count_service"] = 0x4C
    elif kind == "readfrag":
        sc["op"] = {"texts": ["big{420}"]}
        sc["count_service"] = 0x52
    elif kind == "write1":
        sc["op"] = {"texts": ["d"], "values": [1234]}
        sc["count_service"] = 0x4D
    elif kind == "writefrag":
        sc["op"] = {"texts": ["big{420}"], "values": [list(range(420))]}
        sc["count_service"] = 0x53
    elif kind == "rmw":
        sc["op"] = {"texts": ["w.3"], "values": [True]}
        sc["count_service"] = 0x4E
    elif kind == "multiread":
        sc["op"] = {"texts": ["d", "e{4}", "w", "s"]}
        sc["count_service"] = 0x0A
    elif kind == "multiwrite":
        sc["op"] = {"texts": ["d", "e{4}", "w"], "values": [5, [1, 2, 3, 4], 9]}
        sc["count_service"] = 0x0A
    elif kind == "upload_page":
        sc["count_service"] = 0x55
    elif kind == "upload_template":
        sc["count_service"] = 0x4C
    elif kind == "upload_template_attrs":
        sc["count_service"] = 0x03
    elif kind == "register":
        sc["count_kind"] = "register"
    elif kind == "list_identity":
        sc["count_kind"] = "list_identity"
    elif kind == "discover":
        sc["count_kind"] = "list_identity"
        sc["world"]["udp_net"] = "192.168.1.10"
    elif kind == "plc_info":
        sc["count_service"] = 0x01
    return sc


def n_replies(kind):
    return {"readfrag": 4, "writefrag": 4, "upload_page": 3, "upload_template": 1}.get(kind, 1)


def directed(tier, prop="C13"):
    out = directed_slc(tier)
    seed = 1
    sts = list(range(256))
    for kind in KINDS:
        if kind in ("register", "list_identity", "discover"):
            for s in (1, 2, 3, 0x64, 0x65, 0x69, 0xFFFF, 0x10000, 0x80000000, 0xFFFF0000):
                for dcls in (("LogixDriver", "CIPDriver") if kind == "register" else ("LogixDriver",)):
                    sc = base_scenario(kind, seed)
                    sc["driver"]["cls"] = dcls
                    sc["fault"] = {"nth": 0, "mut": {"type": "encap", "status": s}}
                    out.append(sc)
            continue
        multi = kind in ("multiread", "multiwrite")
        for nth in range(n_replies(kind)):
            if tier == "quick" and nth not in (0, n_replies(kind) - 1):
                continue
            for st in sts:
                variants = [[]]
                if st in (0xFF, 0x01, 0x05) or tier == "thorough":
                    variants = [[], [0x2105], [0x2107], [0x1234], [1, 2]] if st == 0xFF else [[], [0x0100], [0x7777, 1]]
                if st == 0xFF and tier == "thorough":
                    variants.append([1, 2, 3])
                if st in (0, 6):
                    variants = [[]]     # additional status words accompany error statuses only
                for ext in variants:
                    if tier == "quick" and ext and st not in (0xFF, 0x01):
                        continue
                    sc = base_scenario(kind, seed)
                    if multi:
                        continue
                    sc["fault"] = {"nth": nth, "mut": {"type": "status", "status": st, "ext": ext, "keep_data": st in (0, 6)}}
                    out.append(sc)
            for s in (1, 2, 3, 0x64, 0x65, 0x69, 0x10000, 0x80000000):
                sc = base_scenario(kind, seed)
                sc["fault"] = {"nth": nth, "mut": {"type": "encap", "status": s}}
                out.append(sc)
            # a non-zero encapsulation status together with a body that looks like success / partial transfer
            for est in (0x03, 0x65, 0x10000):
                for st in (0, 6):
                    sc = base_scenario(kind, seed)
                    sc["fault"] = {"nth": nth, "mut": {"type": "status", "status": st, "ext": [], "keep_data": True,
                                                       "encap_status": est}}
                    out.append(sc)
            # a reply whose service byte is not the reply to what was asked, with a success / partial / error status
            for svc_ in ("clear7", 0x00, 0x7F, 0xCC, 0xD2, 0xFF):
                for st in (0, 6, 5):
                    sc = base_scenario(kind, seed)
                    sc["fault"] = {"nth": nth, "mut": {"type": "status", "status": st, "ext": [], "keep_data": st in (0, 6),
                                                       "service": svc_}}
                    out.append(sc)
            # an error reply cut short at every byte around its status words
            for st, ext in ((0x05, []), (0xFF, [0x2105]), (0x1F, [1, 2])):
                for at in range(38, 58):
                    sc = base_scenario(kind, seed)
                    sc["fault"] = {"nth": nth, "mut": {"type": "status", "status": st, "ext": ext, "keep_data": False,
                                                       "then_truncate": at}}
                    out.append(sc)
        if multi:
            n = len(base_scenario(kind, 0)["op"]["texts"])
            # the multi-service reply's own status
            for st in (0x05, 0x08, 0x1E, 0xFF, 0x13):
                sc = base_scenario(kind, seed)
                sc["fault"] = {"nth": 0, "mut": {"type": "status", "status": st, "ext": [], "keep_data": False}}
                out.append(sc)
            # per-service status vectors
            for pos in range(n):
                for st in (list(range(1, 256)) if tier == "thorough" else [1, 4, 5, 6, 8, 0x0F, 0x13, 0x15, 0x1E, 0x26, 0xFF, 0x80, 0xD0]):
                    v = [0] * n
                    v[pos] = st
                    sc = base_scenario(kind, seed)
                    sc["fault"] = {"nth": 0, "mut": {"type": "multi", "statuses": v, "ext": {str(pos): [0x2105]} if st == 0xFF else {}}}
                    out.append(sc)
            for v in ([5] * n, [0xFF] + [0] * (n - 1), [0] * (n - 1) + [4], [4, 0, 5] + [0] * (n - 3)):
                sc = base_scenario(kind, seed)
                sc["fault"] = {"nth": 0, "mut": {"type": "multi", "statuses": list(v)}}
                out.append(sc)
            for cnt in (0, 1, n - 1, n + 1, 2000, 65535):
                sc = base_scenario(kind, seed)
                sc["fault"] = {"nth": 0, "mut": {"type": "multi_count", "count": cnt}}
                out.append(sc)
            # the two status words crossed: a non-zero encapsulation status on a reply whose body looks like an ordinary
            # multi-service answer (all services fine, or one refused and general status 0x1E)
            for est in (0x03, 0x65, 0x10000):
                for v in ([0] * n, [0] * (n - 1) + [5], [4] + [0] * (n - 1)):
                    sc = base_scenario(kind, seed)
                    sc["fault"] = {"nth": 0, "mut": {"type": "multi", "statuses": list(v), "encap_status": est}}
                    out.append(sc)
        # truncation at every byte of the (first and last) reply
        for nth in sorted({0, n_replies(kind) - 1}):
            for at in range(0, 80 if tier == "quick" else 140):
                for fix in (True, False):
                    if not fix and tier == "quick" and at % 7:
                        continue
                    sc = base_scenario(kind, seed)
                    sc["fault"] = {"nth": nth, "mut": {"type": "truncate", "at": at, "fix_len": fix}}
                    out.append(sc)
    return out


def directed_slc(tier):
    out = []
    n = 0
    for kind in ("slc_read", "slc_write"):
        for sts in range(256):
            for drop in (False, True):
                n += 1
                out.append(slc_scenario(kind, n, {"type": "pccc_sts", "sts": sts, "drop_data": drop}))
        for st in (list(range(1, 256)) if tier == "thorough" else [1, 4, 5, 6, 8, 0x13, 0x14, 0x1E, 0xFF]):
            n += 1
            out.append(slc_scenario(kind, n, {"type": "status", "status": st, "ext": [], "keep_data": False}))
        for es in (1, 2, 3, 0x64, 0x65, 0x69, 0x10000):
            n += 1
            out.append(slc_scenario(kind, n, {"type": "encap", "status": es}))
        for at in range(0, 72):
            for fix in (True, False):
                n += 1
                out.append(slc_scenario(kind, n, {"type": "truncate", "at": at, "fix_len": fix}))
    return out


def gen(seed, tier, prop="C13"):
    r = Sim(seed).stream("gen")
    if r.random() < 0.12:
        kind = r.choice(("slc_read", "slc_write"))
        c = r.random()
        if c < 0.4:
            mut = {"type": "pccc_sts", "sts": r.randrange(256), "drop_data": r.random() < 0.5}
        elif c < 0.6:
            mut = {"type": "truncate", "at": r.randrange(0, 80), "fix_len": r.random() < 0.7}
        elif c < 0.85:
            mut = {"type": "bitflip", "bits": [r.randrange(0, 8 * 70) for _ in range(r.choice((1, 1, 2, 8)))]}
        else:
            mut = {"type": "garbage", "len": r.choice((0, 1, 4, 24, 30, 60, 300)), "keep_header": r.random() < 0.6, "seed": seed}
        return slc_scenario(kind, seed, mut)
    kind = r.choice(KINDS)
    fw = r.choice((17, 20, 32))
    sc = base_scenario(kind, seed, fw)
    if kind == "register" and r.random() < 0.5:
        sc["driver"]["cls"] = "CIPDriver"
    sc["net"] = {"chunk": r.choice(("whole", "mixed")), "send": "all", "latency": "small"}
    sc["driver"]["log"] = "verbose" if r.random() < 0.1 else "off"
    if kind.startswith("generic") and r.random() < 0.5:
        sc["op"]["data_type"] = r.choice(("DINT", "UINT", "STRING"))
    nth = r.randrange(n_replies(kind))
    c = r.random()
    if kind in ("register", "list_identity", "discover"):
        if c < 0.3:
            mut = {"type": "encap", "status": r.choice((1, 2, 3, 0x64, 0x65, 0x69, 0x10000, 0x80000000, 0xFFFF0000, r.randrange(1, 2**32)))}
        elif c < 0.6:
            mut = {"type": "truncate", "at": r.randrange(0, 80), "fix_len": r.random() < 0.7}
        elif c < 0.8:
            mut = {"type": "bitflip", "bits": [r.randrange(0, 8 * 60) for _ in range(r.randint(1, 4))]}
        else:
            mut = {"type": "garbage", "len": r.choice((0, 1, 4, 24, 30, 100)), "keep_header": r.random() < 0.6, "seed": seed}
    elif c < 0.3:
        st = r.randrange(256)
        ext = [r.randrange(65536) for _ in range(r.choice((0, 0, 1, 1, 2, 3)))]
        if r.random() < 0.3:
            ext = [r.choice((0x2105, 0x2107, 0x2104, 0x0100, 0x0107, 0x0311))]
        if st in (0, 6):
            ext = []        # additional status words accompany error statuses only (Vol 1 2-4.2)
        mut = {"type": "status", "status": st, "ext": ext, "keep_data": r.random() < 0.5}
        if r.random() < 0.25:
            mut["then_truncate"] = r.randrange(36, 60)
        elif r.random() < 0.15:
            mut["encap_status"] = r.choice((1, 3, 0x65, 0x10000, 0x80000000))
    elif c < 0.4 and kind in ("multiread", "multiwrite"):
        n = len(sc["op"]["texts"])
        mut = {"type": "multi", "statuses": [r.choice((0, 0, r.randrange(256))) for _ in range(n)]}
    elif c < 0.45 and kind in ("multiread", "multiwrite"):
        mut = {"type": "multi_count", "count": r.choice((0, 1, 2, 5, 100, 65535))}
    elif c < 0.5:
        mut = {"type": "encap", "status": r.choice((1, 2, 3, 0x64, 0x65, 0x69, 0x10000, 0x80000000, 0xFFFF0000, r.randrange(1, 2**32)))}
    elif c < 0.7:
        mut = {"type": "truncate", "at": r.randrange(0, 120), "fix_len": r.random() < 0.7}
    elif c < 0.88:
        mut = {"type": "bitflip", "bits": [r.randrange(0, 8 * 90) for _ in range(r.choice((1, 1, 2, 8)))]}
    else:
        mut = {"type": "garbage", "len": r.choice((0, 1, 4, 24, 30, 60, 300)), "keep_header": r.random() < 0.6, "seed": seed}
    sc["fault"] = {"nth": nth, "mut": mut}
    return sc


def shrink_candidates(sc):
    out = []
    f = sc["fault"]
    m = f["mut"]
    if f["nth"] > 0:
        c = copy.deepcopy(sc)
        c["fault"]["nth"] = 0
        out.append(c)
    if m.get("ext"):
        c = copy.deepcopy(sc)
        c["fault"]["mut"]["ext"] = [] if isinstance(m["ext"], list) else {}
        out.append(c)
    if m["type"] == "bitflip" and len(m["bits"]) > 1:
        for i in range(len(m["bits"])):
            c = copy.deepcopy(sc)
            del c["fault"]["mut"]["bits"][i]
            out.append(c)
    if sc["net"].get("chunk") != "whole":
        c = copy.deepcopy(sc)
        c["net"] = {"chunk": "whole", "send": "all", "latency": "zero"}
        out.append(c)
    if sc["driver"].get("log") == "verbose":
        c = copy.deepcopy(sc)
        c["driver"]["log"] = "off"
        out.append(c)
    return out


def sample(sc):
    return {"seed": sc["seed"], "kind": sc["kind"], "op": sc.get("op"), "fault": sc["fault"],
            "firmware": sc["world"].get("identity")}
