"""E2 - connection lifecycle under call histories x target policies x transport faults (C10),
also feeding the C11 and C17 monitors.

Scenario:
  world/net/driver as in session.py (+ layout "cip" for a bare CIPDriver device)
  ops: open | close | read | write | generic(mode) | with_ok | with_raise | idle
  faults: [{"id","kind","at":{"op","dir","nth","byte"}}]   (hostile configuration)
  "_expand": True  => the worker expands it into the fault-free run plus one run per
                      single-fault position of that run (complete enumeration)
"""
import copy

from ..kernel import Sim
from .. import session, harness, worldgen
from ..device import GenericObject
from ..refmodel import Ref, render, values_equal

PROPS = ("C10", "C11", "C17", "C09")
GEN_TAKES_PROP = True

SEND_FAULTS = ("send_epipe", "send_rst", "send_timeout")
RECV_FAULTS = ("peer_fin", "peer_rst", "stall")
TRANSIENT = ("stall", "send_timeout", "send_zero")
POLICIES = ({}, {"large_fo": "refuse"}, {"large_fo": "refuse", "std_fo": "refuse"}, {"session": "refuse"},
            {"fclose": "refuse"})


class UserError(Exception):
    pass


def phase_of(env, op_kind):
    """protocol phase the current op is in, judged from what the target saw last"""
    last = None
    for r in env.world.oplog:
        if r.get("kind") in ("encap", "forward_open", "forward_close", "unregister"):
            last = r
    if last is None:
        return "connect"
    if last["kind"] == "encap":
        return {0x65: "register", 0x66: "unregister", 0x63: "list_identity"}.get(last["cmd"], "in-call")
    if last["kind"] == "forward_open":
        return "forward-open"
    if last["kind"] == "forward_close":
        return "forward-close"
    return "unregister"


def do_op(env, drv, op, sc, ref):
    sim = env.sim
    k = op["kind"]
    if k == "open":
        return harness.call(sim, drv.open)
    if k == "close":
        return harness.call(sim, drv.close)
    if k == "read":
        return harness.call(sim, drv.read, op["text"])
    if k == "write":
        if sc["driver"].get("cls") == "SLCDriver":
            return harness.call(sim, drv.write, (op["text"], op["value"]))
        return harness.call(sim, drv.write, op["text"], op["value"])
    if k == "generic":
        kw = dict(service=op.get("service", 0x0E), class_code=op.get("cls", 0x300), instance=1,
                  attribute=op.get("attr", 1), request_data=bytes.fromhex(op.get("data", "")),
                  connected=op["mode"] == "connected", unconnected_send=op["mode"] == "unconnected_send",
                  name="g")
        return harness.call(sim, drv.generic_message, **kw)
    if k == "with_ok":
        def f():
            with drv:
                op["_entered"] = True
                if op.get("text"):
                    return drv.read(op["text"])
                return drv.generic_message(service=0x0E, class_code=0x300, instance=1, attribute=1, connected=True)
        op["_entered"] = False
        return harness.call(sim, f)
    if k == "with_raise":
        def f():
            with drv:
                op["_entered"] = True
                raise UserError("user code failed")
        op["_entered"] = False
        return harness.call(sim, f)
    if k == "datalog":
        return harness.call(sim, drv.get_datalog_queue, op["n"], op["q"])
    if k == "idle":
        return harness.call(sim, sim.advance, op["us"])
    raise ValueError(k)


def run(sc):
    env = session.build(sc, budgets={"vtime_us": 48 * 3600 * 10**6})
    sim, net, world = env.sim, env.net, env.world
    hits = world.hits
    entry = env.entry
    entry.policy.setdefault("max_connections", 64)
    target_mod = env.ctl if env.ctl is not None else entry
    target_mod.generic[(0x300, 1)] = GenericObject(reply_data=b"\x2a\x00\x00\x00")
    project = sc["world"].get("project")
    ref = Ref(project) if project else None
    pol = sc["world"].get("policy", {})
    dcls = sc["driver"].get("cls", "LogixDriver")
    evals = {"C10": 0, "C11": 0, "C17": 0, "C09": 0}
    shape = []
    calls = 0
    sess_faulted = False      # a fault fired in the current driver session (open..close)
    sess_transient = False    # ... and it was a transient one (late reply / torn frame)
    any_transient = False
    sess_conns = []           # connections created in the current session
    n_sessions_before = 0
    fo_seen = 0
    first_fo_checked = False

    def feat(inv, op_kind, extra=None):
        f = {"invariant": inv, "driver": dcls, "policy": "+".join(sorted(f"{k}={v}" for k, v in pol.items())) or "ok",
             "op": op_kind}
        fk = sorted(net_fired_kinds())
        f["fault"] = "+".join(fk) if fk else "none"
        if extra:
            f.update(extra)
        return f

    def net_fired_kinds():
        return [f.kind for f in net.faults if f.fired]

    def check_fo_order(op_kind, judge=True):
        nonlocal fo_seen, first_fo_checked
        log = entry.fo_log
        while fo_seen < len(log):
            e = log[fo_seen]
            prev = log[fo_seen - 1] if fo_seen > 0 else None
            if "o2t_size" in e and judge:
                if e["large"]:
                    if e["o2t_size"] != 4000 or e["t2o_size"] != 4000:
                        hits.hit("C10", "life.I1", f"large Forward Open asks for sizes {e['o2t_size']}/{e['t2o_size']}, not 4000",
                                 **feat("I1", op_kind, {"what": "fo_size"}))
                else:
                    if e["o2t_size"] != 500 or e["t2o_size"] != 500:
                        hits.hit("C10", "life.I1", f"standard Forward Open asks for sizes {e['o2t_size']}/{e['t2o_size']}, "
                                 f"not 500", **feat("I1", op_kind, {"what": "fo_size"}))
                    refused_before = any(x["large"] and not x["ok"] and "o2t_size" in x for x in log[:fo_seen])
                    if not refused_before:
                        hits.hit("C10", "life.I1", "standard Forward Open attempted although no extended Forward Open "
                                 "had been refused", **feat("I1", op_kind, {"what": "fo_order"}))
            fo_seen += 1

    with harness.Seams(sim, net, sc["driver"].get("log", "off")):
        drv = session.make_driver(sc, env)
        ops = list(sc["ops"])
        # epilogue (I4): once faults have stopped, close(); open(); <use> works
        epi = [{"id": "e0", "kind": "close", "epilogue": True}, {"id": "e1", "kind": "open", "epilogue": True}]
        usable = not (pol.get("session") == "refuse" or (pol.get("large_fo") == "refuse" and pol.get("std_fo") == "refuse"))
        if sc.get("epilogue_text"):
            epi.append({"id": "e2", "kind": "read", "text": sc["epilogue_text"], "epilogue": True})
        else:
            epi.append({"id": "e2", "kind": "generic", "mode": "connected", "epilogue": True})
        epi.append({"id": "e3", "kind": "close", "epilogue": True})
        for op in ops + epi:
            session.begin_op(env, op["id"])
            k = op["kind"]
            if op.get("epilogue") and any(not f.fired for f in net.faults):
                # faults that never fired would make 'faults have stopped' untrue: disarm them
                for f in net.faults:
                    if not f.fired:
                        f.fired = True
                        f.kind = "unfired:" + f.kind
            # "service errors": the target refuses this call's services with a CIP status
            for m_ in {entry, target_mod}:
                m_.inject = [dict(i) for i in op.get("inject", [])]
            fired_before = len([f for f in net.faults if f.fired and not f.kind.startswith("unfired")])
            conns_before = set(entry.connections)
            outcome, res = do_op(env, drv, op, sc, ref)
            calls += 1
            fired_now = len([f for f in net.faults if f.fired and not f.kind.startswith("unfired")]) > fired_before
            if fired_now:
                sess_faulted = True
                if any(f.fired and f.kind in TRANSIENT for f in net.faults):
                    sess_transient = True
            if sess_transient:
                # after a reply arrived late or a frame was torn, driver and target legitimately disagree about
                # which reply answers which request (the library does not correlate them; outside the statement's
                # fail-stop fault model): I1 is not evaluated for the rest of this driver session
                hits.items[:] = [h for h in hits.items if not (h["oracle"] == "life.I1" and h["op"] == op["id"]
                                                               and h["features"].get("what") != "session_zero")]
            sess_conns += [c for c in entry.connections if c not in conns_before]
            shape.append((k, outcome if not outcome.startswith("foreign") else "foreign",
                          "F" if fired_now else ""))
            evals["C10"] += 1
            evals["C11"] += 1
            evals["C09"] += 1
            evals["C17"] += len([1 for r in world.oplog if r.get("kind") == "seq"])
            ph = phase_of(env, k)
            # I5 ------------------------------------------------------------
            if outcome == "budget":
                hits.hit("C10", "life.I5", f"{k} did not terminate within its budget ({res})",
                         **feat("I5", k, {"phase": ph}))
                break
            # I2 ------------------------------------------------------------
            if outcome.startswith("foreign"):
                if not (k == "with_raise" and isinstance(res, UserError)):
                    hits.hit("C10", "life.I2", f"{k} raised {type(res).__name__}: {res}",
                             **feat("I2", k, {"exc": type(res).__name__, "phase": ph}))
            elif outcome == "ok" and k == "with_raise":
                hits.hit("C10", "life.I2", "with-block swallowed the user's exception", **feat("I2", k, {"exc": "swallowed"}))
            # the extended->standard fallback is remembered by the driver across sessions, so once a transient
            # fault may have made it misread a reply the order rule is no longer judged in this run
            any_transient = any_transient or sess_transient
            check_fo_order(k, judge=not any_transient)
            # I3 ------------------------------------------------------------
            # a with-block whose __enter__ (open) raised never reaches close(): it is then just a failed open
            closes = k == "close" or (k in ("with_ok", "with_raise") and op.get("_entered"))
            if closes:
                if drv.connected is not False:
                    hits.hit("C10", "life.I3", f"driver.connected is {drv.connected!r} after {k} ({outcome})",
                             **feat("I3", k, {"side": "driver", "phase": ph}))
                if not sess_faulted and outcome in ("ok",) or (not sess_faulted and k == "with_raise"):
                    left_sessions = [h for h, ep in entry.sessions.items()]
                    if left_sessions:
                        hits.hit("C10", "life.I3", f"target still holds session(s) {left_sessions} after {k}",
                                 **feat("I3", k, {"side": "target-session", "phase": ph}))
                    if pol.get("fclose") != "refuse":
                        left = [c for c in sess_conns if c in entry.connections]
                        if left:
                            hits.hit("C10", "life.I3", f"target still holds CIP connection(s) {[hex(c) for c in left]} "
                                     f"opened in this session after {k}", **feat("I3", k, {"side": "target-connection",
                                                                                           "phase": ph}))
                sess_faulted = False
                sess_transient = False
                sess_conns = []
            # I4 ------------------------------------------------------------
            if op.get("epilogue") and usable:
                if k == "open" and not (outcome == "ok" and res):
                    hits.hit("C10", "life.I4", f"after the faults stopped, open() -> {outcome}: {res!r}",
                             **feat("I4", k, {"what": "open"}))
                    break
                if k in ("read", "generic"):
                    good = outcome == "ok" and bool(res)
                    if good and k == "read" and ref is not None:
                        name, val, tstr = ref.expect_read(sc["epilogue_ast"], env.ctl.mem)
                        good = values_equal(res.value, val)
                    if k == "read" and sc.get("epilogue_slc"):
                        import struct as _st
                        want = _st.unpack_from("<h", env.entry.files[7]["data"], 2)[0]
                        good = outcome == "ok" and res.error is None and res.value == want
                    if good and k == "generic":
                        good = res.value == b"\x2a\x00\x00\x00"
                    if not good:
                        hits.hit("C10", "life.I4", f"after the faults stopped, close(); open(); {k} -> {outcome}: {str(res)[:200]}",
                                 **feat("I4", k, {"what": "use"}))
            if sim.blown:
                break
    res = {"hits": hits.items, "digest": sim.digest(), "shape": tuple(shape), "probes": dict(sim.probes),
           "faults": dict(sim.faults_fired), "frames": world.frames_in, "calls": calls, "vtime_us": sim.now_us,
           "evals": evals, "nontrivial": True, "events": sim.events if sim.keep_events else None,
           "io_counts": dict(net_io_counts(env))}
    return res


def net_io_counts(env):
    return getattr(env.net, "per_op_counts", {})


# ---------------------------------------------------------------------------
def expand(sc):
    """fault-free twin + every single-fault position of it (k-th send / k-th receive of each op)"""
    base = copy.deepcopy(sc)
    base.pop("_expand", None)
    base["faults"] = []
    env_counts = count_io(base)
    out = [base]
    fid = 0
    kinds_s = sc.get("_send_kinds", SEND_FAULTS)
    kinds_r = sc.get("_recv_kinds", RECV_FAULTS)
    bytes_at = sc.get("_bytes", (0,))
    for op_id, (ns, nr) in env_counts.items():
        for nth in range(ns):
            for kind in kinds_s:
                for b in bytes_at:
                    c = copy.deepcopy(base)
                    c["faults"] = [{"id": f"f{fid}", "kind": kind, "at": {"op": op_id, "dir": "send", "nth": nth, "byte": b}}]
                    fid += 1
                    out.append(c)
        for nth in range(nr):
            for kind in kinds_r:
                for b in bytes_at:
                    c = copy.deepcopy(base)
                    c["faults"] = [{"id": f"f{fid}", "kind": kind, "at": {"op": op_id, "dir": "recv", "nth": nth, "byte": b}}]
                    fid += 1
                    out.append(c)
    return out


def count_io(sc):
    """run the fault-free twin and count client messages / reply frames per op"""
    from ..net import SimNet
    counts = {}
    orig_begin = SimNet.begin_op

    def begin(self, op_id):
        if self.cur_op is not None:
            counts[self.cur_op] = (self._n_send, self._n_reply)
        orig_begin(self, op_id)
    SimNet.begin_op = begin
    try:
        env_holder = {}
        r = run(dict(copy.deepcopy(sc), _count=True))
    finally:
        SimNet.begin_op = orig_begin
    # the last op's counters are lost by the wrapper; a trailing epilogue close carries no state we need
    counts = {k: v for k, v in counts.items() if not k.startswith("e")}
    return counts


# ---------------------------------------------------------------------------
def gen_base(r, tier, prop):
    dcls = r.choice(("LogixDriver", "LogixDriver", "CIPDriver", "SLCDriver"))
    pol = dict(r.choice(POLICIES))
    if dcls == "LogixDriver":
        project = worldgen.light_project(r)
        layout = r.choice(("compact", "clx", "compact", "clx", "micro800"))
        idn = {"rev_major": r.choice((17, 20, 21, 32))}
        if layout == "micro800":
            idn = {"rev_major": r.choice((10, 12, 21)), "product_name": "2080-LC50-48QWB"}
            for t in project["tags"]:
                t["scope"] = t.get("scope")          # Micro800 projects have no programs in these worlds
            project["tags"] = [t for t in project["tags"] if t.get("scope") is None and t.get("kind", "user") != "program"]
            project["programs"] = {}
        world = {"layout": layout, "ip": "10.0.0.1", "project": project, "policy": pol,
                 "identity": idn,
                 "choices": {"frag": r.choice(("max", "mixed")), "page": r.choice(("max", 1, "rand")),
                             "handles": r.choice(("random32", "small"))}}
        path = "10.0.0.1"
        if layout == "clx":
            world.update(slots=4, slot=r.choice((0, 2, 3)), enet_slot=1)
            path = f"10.0.0.1/{world['slot']}"
        ref = Ref(project)
        from .. import reqgen
        tags = [t for t in reqgen.usable_tags(ref, True) if t.get("scope") is None and t["type"] != "DWORD"
                and t["type"] in ("SINT", "INT", "DINT", "LINT", "REAL", "UDINT", "UINT", "USINT", "ULINT", "LREAL")]
        driver = {"cls": "LogixDriver", "path": path, "init_tags": True if tags else r.random() < 0.7,
                  "init_program_tags": r.random() < 0.5, "log": "off", "seq_advance": r.choice((0, 0, 65530))}
    elif dcls == "SLCDriver":
        table = {"7": {"type": "N", "data": bytes(r.randrange(256) for _ in range(40)).hex()},
                 "3": {"type": "B", "data": bytes(r.randrange(256) for _ in range(16)).hex()}}
        world = {"layout": "slc", "ip": "10.0.0.1", "project": None, "policy": pol, "table": table,
                 "choices": {"handles": r.choice(("random32", "small"))}}
        driver = {"cls": "SLCDriver", "path": r.choice(("10.0.0.1", "10.0.0.1/0")), "log": "off",
                  "seq_advance": r.choice((0, 0, 65530))}
        tags = []
        ref = None
    else:
        world = {"layout": "cip", "ip": "10.0.0.1", "project": None, "policy": pol,
                 "choices": {"handles": r.choice(("random32", "small"))}}
        driver = {"cls": "CIPDriver", "path": "10.0.0.1", "log": "off", "seq_advance": r.choice((0, 0, 65530))}
        tags = []
        ref = None
    sc = {"engine": "lifecycle", "seed": 0, "prop": prop, "world": world,
          "net": {"chunk": r.choice(("whole", "mixed", "random")), "send": r.choice(("all", "mixed")), "latency": "small"},
          "driver": driver, "ops": [], "faults": []}
    if tags:
        t = r.choice(tags)
        ast = {"scope": None, "tag": t["name"], "idx": ([0] * len(t.get("dims") or ())) or None, "path": [], "bit": None,
               "count": None}
        sc["epilogue_text"] = render(ast)[0]
        sc["epilogue_ast"] = ast
    n = r.randint(2, 8 if tier == "quick" else 12)
    ops = []
    kinds = ["open", "close", "generic_c", "generic_u", "generic_us", "with_ok", "with_raise", "idle"]
    if tags:
        kinds += ["read", "read", "write"]
    if dcls == "SLCDriver":
        kinds = ["open", "close", "slc_read", "slc_read", "slc_write", "with_ok", "with_raise", "idle", "generic_u", "slc_datalog"]
        sc["epilogue_text"] = "N7:1"
        sc["epilogue_slc"] = True
    state_open = False
    for i in range(n):
        c = r.random()
        if not state_open and c < 0.6:
            k = "open"
        else:
            k = r.choice(kinds)
        oid = f"o{i}"
        if k == "open":
            ops.append({"id": oid, "kind": "open"})
            state_open = True
        elif k == "close":
            ops.append({"id": oid, "kind": "close"})
            state_open = False
        elif k in ("read", "write"):
            t = r.choice(tags)
            ast = {"scope": None, "tag": t["name"], "idx": ([0] * len(t.get("dims") or ())) or None, "path": [],
                   "bit": None, "count": None}
            if k == "read":
                ops.append({"id": oid, "kind": "read", "text": render(ast)[0]})
            else:
                from .. import reqgen
                ops.append({"id": oid, "kind": "write", "text": render(ast)[0],
                            "value": reqgen.gen_value(r, ref, t["type"])})
        elif k == "slc_read":
            ops.append({"id": oid, "kind": "read", "text": r.choice(("N7:0", "N7:3{4}", "B3/9", "N7:19"))})
        elif k == "slc_write":
            ops.append({"id": oid, "kind": "write", "text": r.choice(("N7:0", "N7:5", "N7:19")), "value": r.randrange(-32768, 32768)})
        elif k == "slc_datalog":
            ops.append({"id": oid, "kind": "datalog", "n": r.choice((1, 2, 3, 5)), "q": r.choice((0, 0, 1, 7))})
        elif k.startswith("generic"):
            mode = {"generic_c": "connected", "generic_u": "unconnected", "generic_us": "unconnected_send"}[k]
            if mode == "unconnected_send" and (dcls == "CIPDriver" or sc["world"]["layout"] == "micro800"):
                mode = "unconnected"
            ops.append({"id": oid, "kind": "generic", "mode": mode})
        elif k == "with_ok":
            ops.append({"id": oid, "kind": "with_ok", "text": sc.get("epilogue_text") if r.random() < 0.7 else None})
            state_open = False
        elif k == "with_raise":
            ops.append({"id": oid, "kind": "with_raise"})
            state_open = False
        else:
            ops.append({"id": oid, "kind": "idle", "us": r.choice((10**6, 60 * 10**6, 1200 * 10**6, 2000 * 10**6))})
    for o in ops:
        if o["kind"] in ("read", "write") and dcls == "LogixDriver" and r.random() < 0.12:
            o["inject"] = [{"where": "tag_service", "match": {}, "status": r.choice((0x04, 0x05, 0x08, 0x10, 0x1F, 0xFF)),
                            "ext": [], "sticky": True}]
        elif o["kind"] == "generic" and r.random() < 0.1:
            o["inject"] = [{"where": "generic", "match": {}, "status": r.choice((0x05, 0x08, 0x0E, 0x14, 0xFF)), "ext": []}]
    sc["ops"] = ops
    return sc


def gen(seed, tier, prop="C10"):
    r = Sim(seed).stream("gen")
    sc = gen_base(r, tier, prop)
    sc["seed"] = seed
    if prop in ("C17", "C09") or r.random() < 0.15 or (prop == "C11" and r.random() < 0.4):
        return sc                       # fault-free history
    fatal_only = prop != "C10"          # C11's frames are judged under fail-stop faults only (DESIGN 15.4)
    # one (quick) or up to three (thorough) faults at positions of the fault-free twin
    counts = count_io(sc)
    pos = []
    for op_id, (ns, nr) in counts.items():
        pos += [(op_id, "send", k) for k in range(ns)] + [(op_id, "recv", k) for k in range(nr)]
    if not pos:
        return sc
    nf = 1 if (tier == "quick" or r.random() < 0.5) else r.choice((2, 3))
    faults = []
    for i in range(nf):
        op_id, d, k = r.choice(pos)
        if fatal_only:
            kind = r.choice(("send_epipe", "send_rst") if d == "send" else ("peer_fin", "peer_rst"))
        else:
            kind = r.choice(SEND_FAULTS + ("send_zero",) if d == "send" else RECV_FAULTS)
        b = 0 if r.random() < 0.6 else r.choice((1, 3, 4, 23, 24, 30, 44))
        faults.append({"id": f"f{i}", "kind": kind, "at": {"op": op_id, "dir": d, "nth": k, "byte": b}})
    if r.random() < 0.05:
        faults.append({"id": "fc", "kind": r.choice(("connect_refused", "connect_timeout")), "at": {"op": None, "dir": "connect"}})
    if r.random() < 0.03:
        faults.append({"id": "fd", "kind": "dns_fail", "at": {"op": None, "dir": "dns"}})
    if r.random() < 0.03 and not fatal_only:
        faults.append({"id": "fx", "kind": "close_error", "at": {"op": None, "dir": "close"}})
    sc["faults"] = faults
    return sc


def directed(tier, prop="C10"):
    """complete single-fault sweeps of short histories (<= 4 calls) per driver class and policy"""
    if prop != "C10":
        return []
    out = []
    r = Sim(4242).stream("directed")
    histories = [
        ["open", "read", "close"],
        ["open", "generic_c", "close", "open", "generic_c"],
        ["with_ok"],
        ["open", "write", "with_raise"],
        ["open", "generic_us", "generic_c", "close"],
    ]
    for pol in POLICIES:
        for dcls in ("LogixDriver", "CIPDriver"):
            for hist in histories:
                sc = None
                for _ in range(50):
                    cand = gen_base(r, tier, prop)
                    if cand["driver"]["cls"] == dcls and (dcls == "CIPDriver" or cand.get("epilogue_text")):
                        sc = cand
                        break
                if sc is None:
                    continue
                sc["world"]["policy"] = dict(pol)
                sc["net"] = {"chunk": "whole", "send": "all", "latency": "zero"}
                ops = []
                for i, k in enumerate(hist):
                    oid = f"o{i}"
                    if k in ("read", "write") and dcls == "CIPDriver":
                        k = "generic_c"
                    if k == "read":
                        ops.append({"id": oid, "kind": "read", "text": sc["epilogue_text"]})
                    elif k == "write":
                        ops.append({"id": oid, "kind": "generic", "mode": "connected"})
                    elif k.startswith("generic"):
                        mode = {"generic_c": "connected", "generic_u": "unconnected", "generic_us": "unconnected_send"}[k]
                        if mode == "unconnected_send" and dcls == "CIPDriver":
                            mode = "unconnected"
                        ops.append({"id": oid, "kind": "generic", "mode": mode})
                    elif k == "with_ok":
                        ops.append({"id": oid, "kind": "with_ok", "text": sc.get("epilogue_text")})
                    else:
                        ops.append({"id": oid, "kind": k})
                sc["ops"] = ops
                sc["seed"] = 7000 + len(out)
                sc["_expand"] = True
                if tier == "thorough":
                    sc["_bytes"] = (0, 1, 24)
                out.append(sc)
    return out


def shrink_candidates(sc):
    out = []
    ops = sc["ops"]
    for i in range(len(ops) - 1, -1, -1):
        c = copy.deepcopy(sc)
        del c["ops"][i]
        used = {o["id"] for o in c["ops"]}
        c["faults"] = [f for f in c["faults"] if f["at"].get("op") is None or f["at"]["op"] in used
                       or str(f["at"]["op"]).startswith("e")]
        out.append(c)
    for i in range(len(sc.get("faults", []))):
        c = copy.deepcopy(sc)
        del c["faults"][i]
        out.append(c)
    for i, f in enumerate(sc.get("faults", [])):
        if f["at"].get("byte"):
            c = copy.deepcopy(sc)
            c["faults"][i]["at"]["byte"] = 0
            out.append(c)
    if sc.get("net", {}).get("chunk") != "whole" or sc["net"].get("send") != "all":
        c = copy.deepcopy(sc)
        c["net"] = {"chunk": "whole", "send": "all", "latency": "zero"}
        out.append(c)
    ch = sc["world"].get("choices", {})
    if ch.get("handles") != "small" or ch.get("page", "max") != "max":
        c = copy.deepcopy(sc)
        c["world"]["choices"] = dict(ch, handles="small", page="max", frag="max")
        out.append(c)
    if sc["driver"].get("seq_advance"):
        c = copy.deepcopy(sc)
        c["driver"]["seq_advance"] = 0
        out.append(c)
    return out


def sample(sc):
    return {"seed": sc["seed"], "driver": sc["driver"], "layout": sc["world"]["layout"],
            "policy": sc["world"].get("policy"), "net": sc.get("net"),
            "ops": [{k: v for k, v in o.items() if k in ("kind", "mode", "text", "us")} for o in sc["ops"]],
            "faults": sc.get("faults")}
