"""E3 - the real LogixDriver against the reference Logix controller (benign nondeterminism only).

Decides C01 C02 C03 C04 C05 C09 C11 C17 (each check evaluates only its own oracles; other
properties' hits are recorded as incidental).

Scenario: see session.py for world/net/driver; ops:
  {"id","kind":"open"|"close"|"read"|"write"|"get_tag_list"|"idle", ...}
  read:  "reqs": [{"text": str, "ast": AST|None, "invalid": kind|None}]
  write: "reqs": [...], "values": [v...]
  "inject": [ {where, match, status, ext, skip} ]  (per op: statuses the *controller* returns)
"""
import copy
import json

from ..kernel import Sim, derive_seed
from .. import session, harness, worldgen, reqgen
from ..refmodel import Ref, render, values_equal
from ..wire import ATOMIC_BY_NAME

PROPS = ("C01", "C02", "C03", "C04", "C05", "C09", "C11", "C17")
GEN_TAKES_PROP = True

EXTERNAL_ACCESS = {0: "Read/Write", 1: "Reserved", 2: "Read Only", 3: "None"}


# =============================================================================
# oracles
def window_class(delta):
    if delta <= -64:
        return "<=-64"
    if delta <= -8:
        return "(-64,-8]"
    if delta <= 0:
        return "(-8,0]"
    if delta <= 8:
        return "(0,8]"
    if delta <= 64:
        return "(8,64]"
    return ">64"


def req_kind(ref, ast):
    a = ref.resolve(ast)
    if a["boolarr"]:
        return "boolarr_bit" if ast.get("count") in (None, 1) else "boolarr_range"
    if a["bitmember"] is not None:
        return "bitmember"
    if ast.get("bit") is not None:
        return "bit"
    t = a["type"]
    k = "atomic" if t in ATOMIC_BY_NAME else ("string" if ref.types[t].get("string_cap") is not None else "struct")
    if ast.get("count") not in (None, 1):
        k += "_array"
    return k


def packet_path(env, n_reqs, key, for_write):
    cache = getattr(env, "_svc_cache", None)
    if cache is None or cache[0] is not env.ctl.exec_log or cache[1] != len(env.ctl.exec_log):
        by = {}
        for e in env.ctl.exec_log:
            by.setdefault(e.get("key"), []).append(e["svc"])
        multi = any(r.get("kind") == "multi_service" for r in env.world.oplog)
        cls = {k: ("fragmented" if any(x.endswith("_frag") for x in v) else "rmw" if "rmw" in v else None)
               for k, v in by.items()}
        cache = env._svc_cache = (env.ctl.exec_log, len(env.ctl.exec_log), cls, multi)
    c = cache[2].get(key)
    if c == "fragmented" or (c == "rmw" and for_write):
        return c
    return "multi" if cache[3] else "single"


def _packet_path_slow(env, n_reqs, key, for_write):
    svcs = [e["svc"] for e in env.ctl.exec_log if e.get("key") == key]
    if any(s.endswith("_frag") for s in svcs):
        return "fragmented"
    if "rmw" in svcs and for_write:
        return "rmw"
    if any(r.get("kind") == "multi_service" for r in env.world.oplog):
        return "multi"
    return "single"


def expected_wire_addr(ref, ast, for_write):
    """(key, byte offset, type) the request path must resolve to at the target"""
    a = ref.resolve(ast)
    if a["boolarr"]:
        i = a.get("bitidx") or 0
        if for_write:
            return a["key"], a["off"] + (i // 32) * 4, "DWORD", "boolarr"
        return a["key"], a["off"], "DWORD", "boolarr"
    return a["key"], a["off"], a["type"], None


def check_denotation(env, ref, reqs, for_write, hits):
    recs = [r for r in env.world.oplog if r.get("kind") == "tag_service"]
    seen = set()
    for r in recs:
        if "addr" in r:
            key, off, tname, bit = r["addr"]
            seen.add((key, off, tname))
    n = 0
    done = set()
    for q in reqs:
        if q.get("invalid") or q.get("ast") is None or q.get("skip_denote"):
            continue
        n += 1
        if id(q["ast"]) in done:
            continue
        done.add(id(q["ast"]))
        key, off, tname, special = expected_wire_addr(ref, q["ast"], for_write)
        if (key, off, tname) in seen:
            continue
        # BOOL arrays: a DWORD range containing the addressed bits is accepted
        kind = req_kind(ref, q["ast"])
        unresolved = [r for r in recs if "addr" not in r and r.get("status") not in (None, 0)]
        hits.hit("C09", "path.denotes", f"no request path of this call resolved to {key} +{off} ({tname}) for "
                 f"request {q['text']!r}; resolved: {sorted(seen, key=str)[:4]}"
                 + (f"; {len(unresolved)} path(s) did not resolve: {unresolved[0].get('why')}" if unresolved else ""),
                 kind=kind, rw="w" if for_write else "r", unresolved=bool(unresolved))
    return n


def check_tiling(env, hits):
    """C04 (c): per fragmented transfer offsets start at 0, contiguous, cover the value exactly"""
    n = 0
    seqs = {}
    for e in env.ctl.exec_log:
        if e["svc"] in ("read_frag", "write_frag"):
            seqs.setdefault((e["svc"], e["key"], e["off"], e["n"]), []).append(e)
    for (svc, key, off, cnt), es in seqs.items():
        direction = "read" if svc == "read_frag" else "write"
        # split into transfers at offset 0
        transfers = []
        got = 0
        for e in es:
            # a new transfer starts at offset 0 once the running one has received something (an empty
            # fragment at offset 0 is followed by a repeat of offset 0 within the same transfer)
            if not transfers or (e["offset"] == 0 and got > 0):
                transfers.append([])
                got = 0
            transfers[-1].append(e)
            got += e["len"]
        for tr in transfers:
            n += 1
            pos = 0
            total = tr[0]["total"]
            defect = None
            if tr[0]["offset"] != 0:
                defect = "wrong-start"
            else:
                for e in tr:
                    if e["offset"] > pos:
                        defect = "gap"
                        break
                    if e["offset"] < pos:
                        defect = "overlap" if direction == "write" else "offset!=received"
                        break
                    pos += e["len"]
                if defect is None and pos < total:
                    defect = "short"
                if defect is None and pos > total:
                    defect = "long"
            if defect:
                hits.hit("C04", "frag.tiling", f"{direction} transfer of {key} ({total} bytes): fragments "
                         f"{[(e['offset'], e['len']) for e in tr][:8]} -> {defect}", direction=direction, defect=defect)
            if len(tr) >= 3:
                env.sim.probe(f"frag_{direction}_ge3")
    return n


def size_failure_hits(env, ref, q, direction, path, hits, cs):
    """C04 (d): a valid request failed because of size accounting"""
    a = ref.resolve(q["ast"])
    recs = [r for r in env.world.oplog if r.get("kind") == "tag_service" and r.get("addr") and r["addr"][0] == a["key"]]
    partial = any(r.get("status") == 6 and r.get("service") == 0x4C for r in recs)
    over = any(r.get("kind") in ("oversize_request", "oversize_reply") for r in env.world.oplog)
    dropped = not recs            # the request never reached the controller
    if not (partial or over or dropped):
        return
    cause = "partial-unfragmented" if partial else ("oversize" if over else "never-sent")
    n = q["ast"].get("count") or 1
    size = ref.esize(a["type"]) * n if not a["boolarr"] else 4 * ((n + 31) // 32)
    hits.hit("C04", "size.unreadable" if direction == "read" else "size.unwritable",
             f"valid {direction} of {q['text']!r} ({size} data bytes, connection size {cs}) failed",
             direction=direction, path=path, window=window_class(size - cs), cs=cs, cause=cause)


def failed_names(text):
    """names under which the failure of request `text` may be reported: as asked, with or without the {count}"""
    base = text[:text.rindex("{")] if text.endswith("}") and "{" in text else text
    return (text, base)


def check_read(env, ref, op, outcome, res, hits, ctx):
    reqs = op["reqs"]
    n = len(reqs)
    ev = {"C01": 0, "C03": 0, "C04": 0, "C09": 0}
    mixed = any(q.get("invalid") for q in reqs) or bool(op.get("inject"))
    if outcome != "ok":
        what = "exception:" + (outcome.split(":", 1)[1] if ":" in outcome else type(res).__name__)
        ev["C03"] += 1
        hits.hit("C03", "result.shape", f"read of {n} request(s) raised {type(res).__name__}: {res}",
                 n_class=("0" if n == 0 else "1" if n == 1 else ">1"), what=what, mixed=mixed)
        if not mixed and n > 0:
            ev["C01"] += 1
            hits.hit("C01", "read.value", f"read raised {type(res).__name__}: {res}", what=what, kind="call",
                     path="n/a")
        return ev
    ev["C03"] += 1
    if n == 1:
        if isinstance(res, list):
            hits.hit("C03", "result.shape", "read of 1 request returned a list", n_class="1", what="length",
                     mixed=mixed)
            return ev
        results = [res]
    else:
        if not isinstance(res, list) or len(res) != n:
            hits.hit("C03", "result.shape", f"read of {n} requests returned {type(res).__name__} of "
                     f"{len(res) if isinstance(res, list) else 1}", n_class=("0" if n == 0 else ">1"),
                     what="length", mixed=mixed)
            return ev
        results = res
    cs = ctx["cs"]
    memo = {}       # identical request objects (huge calls repeat one request) are interpreted once
    for q, t in zip(reqs, results):
        truthy = bool(t)
        if truthy != (t.value is not None and t.error is None):
            hits.hit("C03", "tag.truthiness", f"bool(Tag)={truthy} for value={t.value!r} error={t.error!r}")
        if q.get("invalid") or q.get("injected"):
            if truthy or not (isinstance(t.error, str) and t.error.strip()):
                hits.hit("C03", "result.failure", f"request {q['text']!r} ({q.get('invalid') or 'injected status'}) gave "
                         f"{t!r}", cause=q.get("invalid") or "injected", what="truthy" if truthy else "empty-error",
                         rw="r")
            elif t.tag not in failed_names(q["text"]):
                # the i-th result belongs to the i-th request: a failure is reported under the name that was asked for
                hits.hit("C03", "result.failure", f"failed request {q['text']!r} came back under the name {t.tag!r}",
                         cause=q.get("invalid") or "injected", what="name", rw="r")
            continue
        ast = q["ast"]
        memo_k = id(ast)
        if memo_k not in memo:
            memo[memo_k] = (ref.expect_read(ast, env.ctl.mem), req_kind(ref, ast), ref.resolve(ast)["key"])
        (name, val, tstr), kind, key = memo[memo_k]
        path = packet_path(env, n, key, False)
        ev["C01"] += 1
        what = None
        if not truthy:
            what = "falsy"
        elif t.tag != name:
            what = "name"
        elif not values_equal(t.value, val):
            what = "value"
        elif t.type != tstr:
            what = "type"
        if what:
            msg = (f"read {q['text']!r}: got {str(t)[:160]}; controller holds {str(val)[:80]!r} type {tstr} "
                   f"name {name!r} -> {what}")
            hits.hit("C01", "read.value", msg, what=what, kind=kind, path=path)
            if mixed:
                hits.hit("C03", "result.isolation", msg, what=what, rw="r")
            if what == "falsy":
                ev["C04"] += 1
                size_failure_hits(env, ref, q, "read", path, hits, cs)
    ev["C09"] += check_denotation(env, ref, reqs, False, hits)
    ev["C04"] += check_tiling(env, hits)
    return ev


def snapshot(ctl):
    return {k: bytes(v) for k, v in ctl.mem.items()}


def check_write(env, ref, op, before, outcome, res, hits, ctx):
    reqs = op["reqs"]
    vals = op["values"]
    n = len(reqs)
    ev = {"C02": 0, "C03": 0, "C04": 0, "C09": 0}
    mixed = any(q.get("invalid") for q in reqs) or bool(op.get("inject"))
    after = env.ctl.mem
    cs = ctx["cs"]
    if outcome != "ok":
        what = "exception:" + (outcome.split(":", 1)[1] if ":" in outcome else type(res).__name__)
        ev["C03"] += 1
        hits.hit("C03", "result.shape", f"write of {n} request(s) raised {type(res).__name__}: {res}",
                 n_class=("0" if n == 0 else "1" if n == 1 else ">1"), what=what, mixed=mixed)
        if not mixed and n > 0:
            ev["C02"] += 1
            hits.hit("C02", "write.applied_count", f"write raised {type(res).__name__}: {res}", path="n/a",
                     count="0", kind="call", status="exception")
        results = [None] * n
    else:
        ev["C03"] += 1
        if n == 1:
            if isinstance(res, list):
                hits.hit("C03", "result.shape", "write of 1 request returned a list", n_class="1", what="length",
                         mixed=mixed)
                results = [None] * n
            else:
                results = [res]
        elif not isinstance(res, list) or len(res) != n:
            hits.hit("C03", "result.shape", f"write of {n} requests returned {type(res).__name__}",
                     n_class=("0" if n == 0 else ">1"), what="length", mixed=mixed)
            results = [None] * n
        else:
            results = res
    allowed = {}          # key -> list of (lo, hi)
    expectations = []
    for q, v, t in zip(reqs, vals, results):
        if t is not None:
            truthy = bool(t)
            if truthy != (t.value is not None and t.error is None):
                hits.hit("C03", "tag.truthiness", f"bool(Tag)={truthy} for value={t.value!r} error={t.error!r}")
        if q.get("invalid") or q.get("injected"):
            if t is not None and (bool(t) or not (isinstance(t.error, str) and t.error.strip())):
                hits.hit("C03", "result.failure", f"write {q['text']!r} ({q.get('invalid') or 'injected status'}) gave "
                         f"{t!r}", cause=q.get("invalid") or "injected", what="truthy" if bool(t) else "empty-error",
                         rw="w")
            elif t is not None and t.tag not in failed_names(q["text"]):
                hits.hit("C03", "result.failure", f"failed write {q['text']!r} came back under the name {t.tag!r}",
                         cause=q.get("invalid") or "injected", what="name", rw="w")
            if q.get("injected") and q.get("ast") is not None and t is not None and bool(t):
                pass        # success was reported for a write the controller refused: judge it like any reported success
            elif q.get("injected") and q.get("ast") is not None:
                # refused by the controller part-way (e.g. one fragment): its own range may be partly written
                try:
                    e0 = ref.expect_write(q["ast"], v)
                    allowed.setdefault(e0["key"], []).append(e0["range"])
                except Exception:  # noqa
                    pass
                continue
            else:
                continue
        if t is None:
            continue
        ast = q["ast"]
        exp = ref.expect_write(ast, v)
        key = exp["key"]
        path = packet_path(env, n, key, True)
        ev["C02"] += 1
        statuses = [r.get("status") for r in env.world.oplog if r.get("kind") == "tag_service" and r.get("addr")
                    and r["addr"][0] == key and r.get("service") in (0x4D, 0x53, 0x4E)]
        rules = sorted({r.get("rule") for r in env.world.oplog if r.get("kind") == "tag_service" and r.get("rule")})
        st = next((s for s in statuses if s), 0) if statuses else "none"
        if not bool(t):
            hits.hit("C02", "write.applied_count", f"valid write {q['text']!r} = {str(v)[:60]!r} reported failure: "
                     f"{t.error!r}", rules=rules, path=path, count="0", kind=exp["kind"],
                     status=(f"0x{st:02x}" if isinstance(st, int) else st))
            if mixed:
                hits.hit("C03", "result.isolation", f"valid write {q['text']!r} failed next to an invalid request: "
                         f"{t.error!r}", what="falsy", rw="w")
            ev["C04"] += 1
            size_failure_hits(env, ref, q, "write", path, hits, cs)
            continue
        if t.tag != exp["tag"]:
            hits.hit("C03", "result.shape", f"write result name {t.tag!r} for request {q['text']!r}", n_class=">1" if n > 1 else "1",
                     what="name", mixed=mixed)
        allowed.setdefault(key, []).append(exp["range"])
        expectations.append((q, v, exp, path))
    # memory: nothing outside the addressed ranges changed
    for key, b in before.items():
        a = after[key]
        if bytes(a) == b:
            continue
        ranges = allowed.get(key, [])
        for i in range(len(b)):
            if a[i] != b[i] and not any(lo <= i < hi for lo, hi in ranges):
                ev["C02"] += 1
                hits.hit("C02", "write.memory_diff", f"byte {i} of {key} changed 0x{b[i]:02x}->0x{a[i]:02x} outside every "
                         f"addressed range {ranges[:3]}", path="n/a", kind="n/a", diff="outside-range")
                break
    # inside: the constraints hold; bits outside the mask of masked constraints unchanged
    for ei, (q, v, exp, path) in enumerate(expectations):
        key = exp["key"]
        a = after[key]
        b = before[key]
        bad = None
        if exp["kind"] in ("bit", "boolarr_bit", "bitmember") and any(
                e2["key"] == key and e2["range"] == exp["range"] and e2["kind"] == exp["kind"]
                and e2["cons"][0][2] == exp["cons"][0][2] for q2, v2, e2, p2 in expectations[ei + 1:]):
            continue        # a later request of the same call writes the same bit: that one decides
        full_masks = bytearray(exp["range"][1] - exp["range"][0])
        lo0 = exp["range"][0]
        for off, data, mask in exp["cons"]:
            for j, byte in enumerate(data):
                m = mask[j] if mask is not None else 0xFF
                full_masks[off + j - lo0] |= m
                if (a[off + j] & m) != (byte & m):
                    bad = (off + j, byte, a[off + j])
                    break
            if bad:
                break
        if bad is None and exp["kind"] in ("bit", "bitmember", "boolarr_bit"):
            # a bit write changes only the addressed bit (other bits of the same call are in other expectations)
            others = 0
            for q2, v2, e2, p2 in expectations:
                if e2["key"] == key and e2["range"] == exp["range"]:
                    for off, data, mask in e2["cons"]:
                        others |= mask[0]
            i = exp["range"][0]
            if (a[i] ^ b[i]) & ~others & 0xFF:
                bad = (i, b[i], a[i])
                hits.hit("C02", "write.memory_diff", f"bit write {q['text']!r} changed other bits of byte {i} of {key}: "
                         f"0x{b[i]:02x}->0x{a[i]:02x}", path=path, kind=exp["kind"], diff="outside-range")
                continue
        if bad:
            hits.hit("C02", "write.memory_diff", f"write {q['text']!r} = {str(v)[:60]!r}: byte {bad[0]} of {key} is "
                     f"0x{bad[2]:02x}, expected 0x{bad[1]:02x}", path=path, kind=exp["kind"], diff="wrong-bytes-inside")
    # exactly once
    execs = env.ctl.exec_log
    seen_groups = set()
    for q, v, exp, path in expectations:
        key = exp["key"]
        kind = exp["kind"]
        if kind in ("bit", "boolarr_bit"):
            a0 = ref.resolve(q["ast"])
            if a0["boolarr"]:
                woff = a0["off"] + ((a0.get("bitidx") or 0) // 32) * 4
            else:
                woff = a0["off"]
            g = ("rmw", key, woff)
            if g in seen_groups:
                continue
            seen_groups.add(g)
            size = None
            want = {}
            for q2, v2, e2, p2 in expectations:
                if e2["key"] != key or e2["kind"] != kind:
                    continue
                a2 = ref.resolve(q2["ast"])
                if a2["boolarr"]:
                    bi = a2.get("bitidx") or 0
                    w2, b2 = a2["off"] + (bi // 32) * 4, bi % 32
                else:
                    w2, b2 = a2["off"], q2["ast"]["bit"]
                if w2 == woff:
                    want[b2] = want.get(b2, 0) + 1
            got = {}
            for e in execs:
                if e["svc"] == "rmw" and e["key"] == key and e["off"] == woff:
                    full = (1 << (8 * e["size"])) - 1
                    touched = (e["or"] | (~e["and"] & full)) & full
                    for b in range(8 * e["size"]):
                        if touched >> b & 1:
                            got[b] = got.get(b, 0) + 1
            # merged requests may share one service; what must hold: every requested bit is applied by at
            # least one and at most as many services as requests named it, and no other bit is touched
            bad = [b for b in want if not (1 <= got.get(b, 0) <= want[b])] + [b for b in got if b not in want]
            if bad:
                b = bad[0]
                cnt = got.get(b, 0)
                hits.hit("C02", "write.applied_count", f"bit {b} of {key}+{woff}: touched by {cnt} read-modify-write "
                         f"service(s), requested {want.get(b, 0)} time(s)", path=path,
                         count="0" if cnt == 0 else ("2+" if b in want else "unrequested"), kind=kind, status="ok")
            continue
        elif kind == "bitmember":
            cnt = len([e for e in execs if e["svc"] == "write" and e["key"] == key and e.get("bit") is not None
                       and e["off"] == exp["range"][0]])
            dup_requests = len([1 for q2, v2, e2, p2 in expectations if e2 is not exp and e2["key"] == key
                                and e2["range"] == exp["range"] and e2["kind"] == kind]) + 1
            g = ("bm", key, exp["range"], exp["cons"][0][2])
            if g in seen_groups:
                continue
            seen_groups.add(g)
            same = [e2 for q2, v2, e2, p2 in expectations if e2["key"] == key and e2["range"] == exp["range"]
                    and e2["kind"] == kind and e2["cons"][0][2] == exp["cons"][0][2]]
            cnt_expected = len(same)
            n_exec = len([e for e in execs if e["svc"] == "write" and e["key"] == key and e.get("bit") is not None
                          and e["off"] == exp["range"][0] and (1 << e["bit"]) == exp["cons"][0][2][0]])
            if n_exec != cnt_expected:
                hits.hit("C02", "write.applied_count", f"write {q['text']!r} executed {n_exec} time(s) at the target, "
                         f"requested {cnt_expected}", path=path, count="0" if n_exec < cnt_expected else "2+",
                         kind=kind, status="ok")
            continue
        else:
            lo, hi = exp["range"]
            g = ("w", key, lo, hi)
            if g in seen_groups:
                continue
            seen_groups.add(g)
            same = [1 for q2, v2, e2, p2 in expectations if e2["key"] == key and e2["range"] == exp["range"]]
            plain = [e for e in execs if e["svc"] == "write" and e["key"] == key and e["off"] == lo
                     and e["total"] == hi - lo and e.get("bit") is None]
            frag = [e for e in execs if e["svc"] == "write_frag" and e["key"] == key and e["off"] == lo
                    and e["total"] == hi - lo]
            n_transfers = len(plain) + len([e for e in frag if e["offset"] == 0])
            if n_transfers != len(same):
                hits.hit("C02", "write.applied_count", f"write {q['text']!r} executed {n_transfers} time(s) at the target, "
                         f"requested {len(same)}", path=path, count="0" if n_transfers < len(same) else "2+",
                         kind=kind, status="ok")
            continue
        if cnt != 1:
            hits.hit("C02", "write.applied_count", f"bit write group at {key}+{woff}: {cnt} read-modify-write services "
                     f"executed for the merged request(s)", path=path, count="0" if cnt == 0 else "2+", kind=kind,
                     status="ok")
    ev["C09"] += check_denotation(env, ref, [q for q, v, e, p in expectations], True, hits)
    ev["C04"] += check_tiling(env, hits)
    return ev, expectations


def expected_tag_view(ref, project, env, init_program_tags, program):
    """reference for C05: {tag_name: facts}"""
    fw = env.ctl.firmware
    out = {}
    for t in project["tags"]:
        kind = t.get("kind", "user")
        if kind not in ("user", "module"):
            continue
        scope = t.get("scope")
        if scope is None:
            if program not in (None, "*"):
                continue
            name = t["name"]
        else:
            if program == "*":
                pass
            elif program is None or program != scope:
                continue
            name = f"Program:{scope}.{t['name']}"
        dims = list(t.get("dims") or ())
        facts = {"tag_name": name, "instance_id": t["instance_id"], "dim": len(dims),
                 "dimensions": (dims + [0, 0, 0])[:3], "alias": bool(t.get("alias")),
                 "tag_type": "atomic" if t["type"] in ATOMIC_BY_NAME else "struct",
                 "data_type_name": t["type"],
                 "external_access": EXTERNAL_ACCESS[t.get("access", 0)] if fw >= 18 else None}
        out[name] = facts
    return out


def expected_type_def(ref, tname):
    td = ref.types[tname]
    d = {"name": tname, "attributes": [m["name"] for m in td["members"] if not m["hidden"]],
         "structure_size": td["size"], "member_count": len(td["members"]), "structure_handle": td["handle"],
         "members": {}}
    if td.get("string_cap") is not None:
        d["string"] = td["string_cap"]
    unk = 0
    for m in td["members"]:
        mname = m["name"]
        if not mname:               # unnamed internal members are listed as __unknown<n> (and hidden)
            mname = f"__unknown{unk}"
            unk += 1
        md = {"offset": m["offset"],
              "tag_type": "atomic" if m["type"] in ATOMIC_BY_NAME else "struct",
              "data_type_name": m["type"]}
        if m["type"] == "BOOL" and m.get("bit") is not None:
            md["bit"] = m["bit"]
        else:
            md["array"] = m.get("array") or 0
        d["members"][mname] = md
    return d


def compare_type_def(ref, got, tname, hits, where, depth=0):
    exp = expected_type_def(ref, tname)
    bad = lambda what, msg: hits.hit("C05", "upload.types", f"{where}: type {tname}: {msg}", what=what)
    if not isinstance(got, dict):
        bad("definition", f"data_type is {type(got).__name__}")
        return
    if got.get("name") != exp["name"]:
        bad("name", f"name {got.get('name')!r}")
    if got.get("attributes") != exp["attributes"]:
        bad("attributes", f"attributes {got.get('attributes')} expected {exp['attributes']}")
    tpl = got.get("template", {})
    for k in ("structure_size", "member_count", "structure_handle"):
        if tpl.get(k) != exp[k]:
            bad("template", f"template[{k}]={tpl.get(k)} expected {exp[k]}")
    if "string" in exp:
        if got.get("string") != exp["string"]:
            bad("string", f"string capacity {got.get('string')} expected {exp['string']}")
    elif "string" in got:
        bad("string", f"non-string structure recognised as string of {got.get('string')}")
    it = got.get("internal_tags", {})
    if set(it) != set(exp["members"]):
        bad("members", f"internal_tags {sorted(it)} expected {sorted(exp['members'])}")
        return
    for mname, md in exp["members"].items():
        g = it[mname]
        for k, v in md.items():
            if g.get(k) != v:
                bad("member:" + k, f"member {mname}: {k}={g.get(k)!r} expected {v!r}")
        if md["tag_type"] == "struct" and depth < 4:
            compare_type_def(ref, g.get("data_type"), md["data_type_name"], hits, where + "." + mname, depth + 1)
        elif md["tag_type"] == "atomic" and g.get("data_type") != md["data_type_name"]:
            bad("member:data_type", f"member {mname}: data_type {g.get('data_type')!r}")


def check_upload(env, ref, project, drv, program, hits, returned=None):
    """C05 after open / get_tag_list"""
    exp = expected_tag_view(ref, project, env, True, program)
    got = drv.tags
    gk, ek = set(got), set(exp)
    if returned is not None:
        names = [t["tag_name"] for t in returned]
        if len(names) != len(set(names)):
            hits.hit("C05", "upload.tags", f"duplicate tags returned: {sorted(n for n in names if names.count(n) > 1)[:4]}",
                     what="duplicated")
    if gk - ek:
        x = sorted(gk - ek)[:4]
        cls = "system" if any(":" in n.split(".")[-1] or n.split(".")[-1].startswith("__") for n in x) else "other"
        hits.hit("C05", "upload.tags", f"tags invented / not filtered: {x}", what="extra", cls=cls)
    if ek - gk:
        hits.hit("C05", "upload.tags", f"tags missing: {sorted(ek - gk)[:4]}", what="missing")
    for name in sorted(gk & ek):
        g, e = got[name], exp[name]
        for k, v in e.items():
            if v is None:
                continue
            if g.get(k) != v:
                hits.hit("C05", "upload.tags", f"tag {name}: {k}={g.get(k)!r}, controller has {v!r}", what="field:" + k)
        if e["tag_type"] == "struct":
            compare_type_def(ref, g.get("data_type"), e["data_type_name"], hits, name)
        elif g.get("data_type") != e["data_type_name"]:
            hits.hit("C05", "upload.tags", f"tag {name}: data_type {g.get('data_type')!r}", what="field:data_type")
    if program in (None, "*"):
        progs = drv.info.get("programs", {})
        ep = project.get("programs", {})
        if set(progs) != set(ep):
            hits.hit("C05", "upload.info", f"programs {sorted(progs)} expected {sorted(ep)}", what="programs")
        elif program == "*":
            for p, d in ep.items():
                if sorted(progs[p].get("routines", [])) != sorted(d["routines"]):
                    hits.hit("C05", "upload.info", f"routines of {p}: {progs[p].get('routines')} expected {d['routines']}",
                             what="routines")
        tasks = drv.info.get("tasks", {})
        et = [t["name"][5:] for t in project["tags"] if t.get("kind") == "task"]
        if sorted(tasks) != sorted(et):
            hits.hit("C05", "upload.info", f"tasks {sorted(tasks)} expected {sorted(et)}", what="tasks")
    # the definitions this upload fetched are also what `data_types` holds under their names now: every structure
    # reachable from the uploaded tags was fetched anew (the upload cache lives for one upload), so after a changed
    # program `data_types` may keep old entries only for types this upload did not touch
    dts = getattr(drv, "data_types", None)
    if isinstance(dts, dict):
        reach, todo = set(), [g.get("data_type") for g in got.values() if isinstance(g.get("data_type"), dict)]
        while todo:
            d = todo.pop()
            nm = d.get("name")
            if nm in reach or not isinstance(nm, str):
                continue
            reach.add(nm)
            for m in (d.get("internal_tags") or {}).values():
                if isinstance(m, dict) and isinstance(m.get("data_type"), dict):
                    todo.append(m["data_type"])
        for nm in sorted(reach):
            if nm in dts and nm in ref.types:
                compare_type_def(ref, dts[nm], nm, hits, "data_types after this upload")
    try:
        js = json.dumps(drv.tags_json, sort_keys=True)
    except Exception as e:  # noqa
        hits.hit("C05", "upload.json", f"tags_json not serialisable: {type(e).__name__}: {e}", what="json")
        js = None
    return js


# =============================================================================
def check_data_types(drv, ref, hits, who="first"):
    """C05: `data_types` holds the structure definitions of THIS controller - none invented, each as the controller
    defines it now"""
    n = 0
    dts = getattr(drv, "data_types", None)
    if not isinstance(dts, dict):
        return 0
    for name in sorted(dts):
        n += 1
        if name in ref.types:
            compare_type_def(ref, dts[name], name, hits, f"data_types of the {who} driver")
        elif name != "STRING":
            hits.hit("C05", "upload.types", f"data_types of the {who} driver lists {name!r}, which this controller does not define",
                     what="invented")
    return n


def check_fo_route(env, path_text, hits, seen, who="first"):
    """C09: the route in every Forward Open's connection path decodes to the route the driver's path string names
    (bare address = backplane/slot 0; no route at all towards a Micro800)"""
    from .generic import route_hops_of_path, norm_hops
    log = env.entry.fo_log
    n = 0
    while seen[0] < len(log):
        e = log[seen[0]]
        seen[0] += 1
        if "route" not in e:
            continue
        _, want = route_hops_of_path(path_text, True)
        if env.ctl is not None and env.ctl.micro800:
            want = []
        n += 1
        if norm_hops(e["route"]) != norm_hops(want):
            hits.hit("C09", "path.denotes", f"Forward Open of the {who} driver ({path_text!r}) carries the route {e['route']}, "
                     f"the path names {want}", kind="fo_route", rw="fo", unresolved=False)
    return n


def run(sc):
    if sc.get("prop") == "C05" and not sc.get("_twin"):
        return run_with_twin(sc)
    return run_once(sc)[0]


def run_with_twin(sc):
    res, js = run_once(sc)
    twin = copy.deepcopy(sc)
    twin["_twin"] = True
    tw = twin["world"].setdefault("choices", {})
    tw["page"] = "max" if sc["world"].get("choices", {}).get("page", "max") != "max" else 1
    tw["frag"] = "max" if sc["world"].get("choices", {}).get("frag", "max") != "max" else 7
    twin["net"] = dict(twin.get("net", {}), chunk="whole", send="all")
    res2, js2 = run_once(twin)
    if js is not None and js2 is not None:
        res["evals"]["C05"] = res["evals"].get("C05", 0) + 1
        if js != js2:
            res["hits"].append({"property": "C05", "oracle": "upload.pagination", "op": None, "rules": [],
                                "msg": "tags_json differs between two pagination/fragmentation policies of the same project",
                                "features": {"what": "pagination-dependent"}})
    res["digest"] = res["digest"] + res2["digest"][:16]
    res["frames"] += res2["frames"]
    return res


def run_once(sc):
    if any(o["kind"] == "mutate_project" for o in sc["ops"]):
        sc = copy.deepcopy(sc)          # the run changes the project: never touch the caller's scenario
    env = session.build(sc)
    sim, net, world, ctl = env.sim, env.net, env.world, env.ctl
    hits = world.hits
    project = sc["world"]["project"]
    ref = Ref(project)
    evals = {p: 0 for p in PROPS}
    calls = 0
    shape = []
    js_first = None
    last_upload_program = "*" if sc["driver"].get("init_program_tags", True) else None
    by = sc.get("bystander")
    envB = refB = None
    B = {"drv": None}
    fo_seen_a, fo_seen_b = [0], [0]
    if by:
        # a second, independent LogixDriver talking to another controller at another address in the same
        # process: same tag and type names, other instance ids / handles / values.  Everything one driver
        # instance learns must stay with that instance.
        if by.get("mode") == "shared_tags":
            # the documented second connection to the *same* controller: init_tags=False and plc2._tags = plc1.tags
            envB, refB = env, ref
        else:
            wB = dict(by.get("world") or {"layout": "compact"}, ip=by["ip"], project=by["project"],
                      choices=sc["world"].get("choices", {}))
            envB = session.build({"seed": sc["seed"], "world": wB}, sim=sim, net=net)
            refB = Ref(by["project"])

    def bystander_step(aid):
        nonlocal calls
        hb = envB.world.hits
        if by.get("open_before") == aid and B["drv"] is None and (by.get("mode") != "shared_tags" or opened):
            session.begin_op(envB, aid + "/B.open")
            envB.ctl.inject = []
            shared = by.get("mode") == "shared_tags"
            if shared:
                B["drv"] = harness.lib().LogixDriver(sc["driver"]["path"], init_tags=False)
            else:
                B["drv"] = harness.lib().LogixDriver(by["ip"])
            o_, r_ = harness.call(sim, B["drv"].open)
            calls += 1
            if o_ == "ok" and r_ and not shared:
                B["ever"] = B["drv"]
            if o_ == "ok" and r_ and shared:
                B["drv"]._tags = drv.tags          # as documented in LogixDriver.__init__
            elif o_ == "ok" and r_:
                evals["C05"] += 1
                check_upload(envB, refB, by["project"], B["drv"], "*", hb)
            else:
                hb.hit("C05", "upload.failed", f"second driver: open() -> {o_}: {type(r_).__name__}: {r_}",
                       what="exception" if o_ != "ok" else "false")
                B["drv"] = None
            sim.probe("second_driver_open")
            if not shared:
                evals["C09"] += check_fo_route(envB, by["ip"], hb, fo_seen_b, "second")
        q = by.get("reads", {}).get(aid)
        if q and B["drv"] is not None:
            session.begin_op(envB, aid + "/B.read")
            envB.ctl.inject = []
            o_, r_ = harness.call(sim, B["drv"].read, *[x["text"] for x in q["reqs"]])
            calls += 1
            ev_ = check_read(envB, refB, q, o_, r_, hb, {"cs": B["drv"].connection_size})
            for k_, v_ in ev_.items():
                evals[k_] += v_
            sim.probe("second_driver_read_interleaved")
        if by.get("close_before") == aid and B["drv"] is not None:
            session.begin_op(envB, aid + "/B.close")
            harness.call(sim, B["drv"].close)
            calls += 1
            B["drv"] = None

    with harness.Seams(sim, net, sc["driver"].get("log", "off")):
        drv = session.make_driver(sc, env)
        opened = False
        for op in sc["ops"]:
            if envB is not None:
                bystander_step(op["id"])
            session.begin_op(env, op["id"])
            kind = op["kind"]
            ctl.inject = [dict(i) for i in op.get("inject", [])]
            ctx = {"cs": getattr(drv, "connection_size", 0)}
            calls += 1
            if op.get("sacrificed"):
                # the call a fail-stop transport fault cuts short (if the call is long enough to reach the fault's
                # position): what it returns is not judged here (C10's engine does that), the monitors stay on
                if kind == "read":
                    outcome, res = harness.call(sim, drv.read, *[q["text"] for q in op["reqs"]])
                elif kind == "write":
                    outcome, res = harness.call(sim, drv.write, *[(q["text"], v) for q, v in zip(op["reqs"], op["values"])])
                else:
                    outcome, res = harness.call(sim, drv.get_tag_list, op.get("program"))
                fired_ = any(f.fired for f in net.faults)
                if fired_:
                    sim.probe("fault_inside_" + kind)
                    if len([1 for r_ in world.oplog if r_.get("kind") in ("symbol_list", "template", "tag_service",
                                                                         "multi_service")]) >= 1:
                        sim.probe("fault_after_first_reply_of_call")
                shape.append(("sacrificed", kind, outcome, fired_))
            elif kind == "open":
                outcome, res = harness.call(sim, drv.open)
                shape.append(("open", outcome))
                if outcome == "ok" and res:
                    opened = True
                    if sc["driver"].get("init_tags", True):
                        evals["C05"] += 1
                        js = check_upload(env, ref, project, drv, last_upload_program, hits)
                        js_first = js_first or js
                else:
                    # benign configuration: open() has to work; everything after it would only cascade
                    hits.hit("C05", "upload.failed", f"open() -> {outcome}: {type(res).__name__}: {res} "
                             f"({getattr(res, '__cause__', None)!r})", what="exception" if outcome != "ok" else "false")
                    evals["C05"] += 1
                    if sc.get("prop") in ("C01", "C02", "C03", "C04", "C09"):
                        # nothing of this controller can be read or written at all
                        hits.hit(sc["prop"], "setup", f"open() against a healthy controller -> {outcome}: "
                                 f"{type(res).__name__}: {res}", what="open")
                        evals[sc["prop"]] += 1
                    break
            elif kind == "mutate_project":
                # the program in the controller changes between two uploads (e.g. a download): every structure
                # gets renamed members and a new handle, the symbol instance ids of the tags move; the next
                # upload has to reflect that
                mutate_project(project, op.get("ids", False))
                ctl.reindex()
                ref = Ref(project)
                shape.append(("mutate_project",))
            elif kind == "get_tag_list" and op.get("inject"):
                # the controller refuses part of this upload: a library exception is a legitimate outcome
                outcome, res = harness.call(sim, drv.get_tag_list, op.get("program"))
                shape.append(("get_tag_list_refused", outcome))
                if outcome not in ("ok", "library"):
                    hits.hit("C05", "upload.failed", f"refused upload raised {type(res).__name__}: {res}", what="foreign-exception")
            elif kind == "get_tag_list":
                outcome, res = harness.call(sim, drv.get_tag_list, op.get("program"))
                shape.append(("get_tag_list", outcome))
                evals["C05"] += 1
                if outcome == "ok":
                    js = check_upload(env, ref, project, drv, op.get("program"), hits, returned=res)
                else:
                    hits.hit("C05", "upload.failed", f"get_tag_list raised {type(res).__name__}: {res}", what="exception")
            elif kind == "close":
                outcome, res = harness.call(sim, drv.close)
                shape.append(("close", outcome))
                opened = False
            elif kind == "idle":
                sim.advance(op["us"])
                shape.append(("idle",))
            elif kind == "seq_advance":
                # equivalent to having sent op["n"] further connected messages: the last of them carried the
                # last count drawn, which is what the target remembers as the previous message's count
                v = session.advance_sequence(drv, op["n"])
                if v is not None:
                    for c in env.entry.connections.values():
                        if "/B." in str(c.opened_op or ""):
                            continue        # the connection of the second driver: its counter was not touched
                        c.last_seq = v
                        c.cached = None
                shape.append(("seq_advance",))
            elif kind == "many_reads":
                # a genuinely long history: n single reads in a row, each checked against the controller's memory
                q = op["req"]
                name, val, tstr = ref.expect_read(q["ast"], ctl.mem)
                bad = 0
                for i in range(op["n"]):
                    world.oplog = []
                    o_, r_ = harness.call(sim, drv.read, q["text"])
                    if o_ != "ok" or not r_ or not values_equal(r_.value, val):
                        bad += 1
                        if bad == 1:
                            hits.hit("C01", "read.value", f"read #{i} of a long history: {o_} {str(r_)[:120]}", what="falsy",
                                     kind="atomic", path="single")
                    if sim.blown:
                        break
                evals["C17"] += op["n"]
                evals["C01"] += op["n"]
                calls += op["n"]
                sim.probe("long_history_70k")
                shape.append(("many_reads", op["n"] >= 65536))
            elif kind == "read":
                texts = [q["text"] for q in op["reqs"]]
                outcome, res = harness.call(sim, drv.read, *texts)
                mark_injected(op, ctl.inject)
                ctx["cs"] = drv.connection_size
                ev = check_read(env, ref, op, outcome, res, hits, ctx)
                for k, v in ev.items():
                    evals[k] += v
                shape.append(("read", outcome, classes_of(env, op)))
            elif kind == "write":
                before = snapshot(ctl)
                pairs = [(q["text"], v) for q, v in zip(op["reqs"], op["values"])]
                if len(pairs) == 1 and op.get("flat"):
                    outcome, res = harness.call(sim, drv.write, pairs[0][0], pairs[0][1])
                else:
                    outcome, res = harness.call(sim, drv.write, *pairs)
                ctx["cs"] = drv.connection_size
                mark_injected(op, ctl.inject)
                ev, expectations = check_write(env, ref, op, before, outcome, res, hits, ctx)
                for k, v in ev.items():
                    evals[k] += v
                shape.append(("write", outcome, classes_of(env, op)))
                # read-back of what was reported written
                if expectations and op.get("readback", True):
                    session.begin_op(env, op["id"] + "/rb")
                    ctl.inject = []         # the controller refuses nothing during the read-back
                    rb = {"reqs": [q for q, v, e, p in expectations]}
                    texts = [q["text"] for q in rb["reqs"]]
                    outcome2, res2 = harness.call(sim, drv.read, *texts)
                    calls += 1
                    rb_hits_before = len(hits.items)
                    check_read(env, ref, rb, outcome2, res2, hits, ctx)
                    # re-label read-back failures as C02 as well
                    for h in hits.items[rb_hits_before:]:
                        if h["property"] == "C01":
                            hits.items.append({"property": "C02", "oracle": "write.readback", "msg": h["msg"],
                                               "op": h["op"], "rules": [], "features": dict(h["features"])})
                    evals["C02"] += 1
            else:
                raise ValueError(kind)
            for h in hits.items:
                if h["oracle"] == "seq.adjacent" and h["op"] == op["id"] and "call_size" not in h["features"]:
                    h["features"]["call_size"] = ">=65000 requests" if len(op.get("reqs", ())) >= 65000 else "<65000 requests"
            nm = len([1 for r_ in world.oplog if r_.get("kind") == "multi_service"])
            if nm >= 2:
                sim.probe("multi_service_ge2_packets")
            if any(r_.get("kind") == "forward_open" and not r_.get("large") and r_.get("ok") for r_ in world.oplog):
                sim.probe("standard_fo_fallback_taken")
            if kind == "open" and ctl.micro800:
                sim.probe("micro800_open")
            seqs_ = [r_["seq"] for r_ in world.oplog if r_.get("kind") == "seq"]
            if len(seqs_) >= 2 and any(b < a for a, b in zip(seqs_, seqs_[1:])):
                sim.probe("sequence_wrap_inside_call")
            if any(r_.get("kind") == "tag_service" and r_.get("status") == 6 and r_.get("service") == 0x52 for r_ in world.oplog):
                sim.probe("status6_on_fragmented_read")
            if len([1 for r_ in world.oplog if r_.get("kind") == "symbol_list"]) >= 3:
                sim.probe("symbol_list_ge3_pages")
            evals["C09"] += check_fo_route(env, sc["driver"]["path"], hits, fo_seen_a)
            # monitors that every op feeds
            if kind in ("open", "read", "write", "get_tag_list", "close"):
                evals["C11"] += 1
                evals["C17"] += len([1 for r in world.oplog if r.get("kind") == "seq"])
            if sim.blown:
                hits.hit(sc.get("prop", "C01"), "budget", f"budget {sim.blown} blown during {kind}", what=sim.blown)
                break
    # (not after a changed program: a partial re-upload legitimately leaves the definitions it did not touch as they were)
    if sc["driver"].get("init_tags", True) and any(x[0] == "open" and x[1] == "ok" for x in shape) \
            and not any(o["kind"] == "mutate_project" for o in sc["ops"]):
        evals["C05"] += 1 if check_data_types(drv, ref, hits) else 0
    if envB is not None and envB is not env and B.get("ever"):
        check_data_types(B["ever"], refB, envB.world.hits, "second")
    frames = world.frames_in
    if envB is not None and envB is not env:
        for h in envB.world.hits.items:
            h["features"]["driver"] = "second"
            hits.items.append(h)
        frames += envB.world.frames_in
    if envB is not None:
        shape.append(("second_driver", by.get("mode", "other_controller")))
    nontrivial = any(s[0] in ("read", "write") for s in shape) or sc.get("prop") in ("C05", "C11", "C17")
    res = {"hits": hits.items, "digest": sim.digest(), "shape": tuple(shape), "probes": dict(sim.probes),
           "faults": dict(sim.faults_fired), "frames": frames, "calls": calls, "vtime_us": sim.now_us,
           "evals": evals, "nontrivial": nontrivial, "events": sim.events if sim.keep_events else None}
    return res, js_first


def mark_injected(op, live):
    """inject entries carry 'req' = index of the request they are aimed at; a request counts as refused by
    the controller only if its injection really fired during the call"""
    for q in op["reqs"]:
        q.pop("injected", None)
    for inj in live:
        i = inj.get("req")
        if inj.get("fired") and i is not None and 0 <= i < len(op["reqs"]):
            op["reqs"][i]["injected"] = True


def classes_of(env, op):
    svcs = sorted({e["svc"] for e in env.ctl.exec_log})
    multi = len([1 for r in env.world.oplog if r.get("kind") == "multi_service"])
    return (tuple(svcs), min(multi, 3), min(len(op["reqs"]), 5),
            tuple(sorted({q.get("invalid") or "" for q in op["reqs"]})))


# =============================================================================
# generation
FW_CHOICES = (16, 17, 18, 19, 20, 21, 24, 28, 32, 33)
# link addresses of odd and even string length (port segments pad odd lengths)
HOP_IPS = ("10.11.12.13", "10.0.0.10", "192.168.1.20", "1.2.3.4", "10.0.0.2", "172.16.0.22", "192.168.100.200", "10.10.10.1")


def gen_world(r, prop, tier):
    feat = {}
    # swarm: which features are enabled for this run
    feat["atoms"] = r.sample(worldgen.ATOMS, r.randint(3, len(worldgen.ATOMS)))
    if "DINT" not in feat["atoms"]:
        feat["atoms"].append("DINT")
    feat["n_types"] = r.choice((0, 1, 2, 3, 5))
    feat["n_strings"] = r.choice((0, 1, 1, 2))
    feat["n_tags"] = r.choice((3, 6, 10, 16))
    feat["max_dims"] = r.choice((0, 1, 2, 3))
    feat["programs"] = r.choice((0, 1, 1, 2))
    feat["prog_tags"] = r.choice((1, 3))
    feat["bool_arrays"] = r.random() < 0.7
    feat["depth"] = r.choice((1, 2, 3))
    feat["predefined_ids"] = r.random() < 0.3
    feat["gaps"] = r.random() < 0.15
    r.random()
    feat["p_out_of_order"] = 0.0     # see DESIGN "false alarms corrected": record order = offset order in real templates
    feat["max_array"] = r.choice((4, 12, 30))
    if prop == "C05":
        feat["n_types"] = r.choice((1, 3, 6, 8))
        feat["n_tags"] = r.choice((5, 12, 25, 40))
        feat["system_symbols"] = True
        feat["module_tags"] = r.random() < 0.7
    layout = r.choice(("compact", "compact", "clx", "clx", "micro800", "multihop"))
    fw = r.choice(FW_CHOICES)
    identity = {"rev_major": fw, "rev_minor": r.randrange(0, 100)}
    policy = {}
    if layout == "micro800":
        identity["product_name"] = r.choice(("2080-LC50-48QWB", "2080-LC30-24QBB"))
        feat["programs"] = 0
        fw = r.choice((10, 12, 20, 21))
        identity["rev_major"] = fw
    else:
        identity["product_name"] = r.choice(("1756-L83E/B", "1769-L33ER/A LOGIX5333ER", "1756-L61/B LOGIX5561"))
    c = r.random()
    if c < 0.35 or (fw < 20 and r.random() < 0.7):
        policy["large_fo"] = "refuse"
    big = None
    cs = 500 if policy.get("large_fo") == "refuse" else 4000
    if prop in ("C04",) or r.random() < 0.25:
        big = []
        for _ in range(r.randint(1, 2)):
            tn = r.choice(("SINT", "INT", "DINT", "LINT", "REAL"))
            es = ATOMIC_BY_NAME[tn][1]
            target = r.choice((cs, cs, 2 * cs, 3 * cs)) + r.randint(-70, 70)
            big.append({"type": tn, "n": max(1, target // es), "name_len": r.randint(1, 30)})
    feat["big"] = big
    project = worldgen.gen_project(r, feat)
    world = {"layout": layout, "ip": "10.0.0.1", "identity": identity, "policy": policy, "project": project,
             "choices": {"frag": r.choice(("max", "max", "mixed", "random", r.choice((1, 2, 3, 7, 50, 100)))),
                         "page": r.choice(("max", "rand", 1, 2)),
                         "handles": r.choice(("random32", "random32", "small"))}}
    total_bytes = sum(len(t.get("init", "")) // 2 for t in project["tags"])
    if isinstance(world["choices"]["frag"], int) and world["choices"]["frag"] < 10 and (big or total_bytes > 3000):
        world["choices"]["frag"] = "mixed"       # keep runs bounded: tiny fragments only for small data
    if layout == "clx":
        world["slots"] = r.choice((4, 7, 10, 13, 17))
        world["slot"] = r.randrange(world["slots"])
        es = r.randrange(world["slots"])
        while es == world["slot"]:
            es = r.randrange(world["slots"])
        world["enet_slot"] = es
        path = f"10.0.0.1/{world['slot']}" if r.random() < 0.6 else \
            r.choice((f"10.0.0.1/bp/{world['slot']}", f"10.0.0.1/backplane/{world['slot']}",
                      f"10.0.0.1\\1\\{world['slot']}", f"10.0.0.1,bp,{world['slot']}"))
        if world["slot"] == 0 and r.random() < 0.5:
            path = "10.0.0.1"
    elif layout == "multihop":
        world["slots"] = r.choice((4, 7, 10))
        world["enet_slot"] = r.randrange(world["slots"])
        world["hop_slot"] = r.choice([x for x in range(world["slots"]) if x != world["enet_slot"]])
        world["hop_ip"] = r.choice(HOP_IPS)
        world["remote_slots"] = r.choice((4, 7, 13))
        world["remote_enet_slot"] = r.randrange(world["remote_slots"])
        world["slot"] = r.choice([x for x in range(world["remote_slots"]) if x != world["remote_enet_slot"]])
        sep = r.choice(("/", "/", "\\", ","))
        path = sep.join(("10.0.0.1", r.choice(("bp", "backplane", "1")), str(world["hop_slot"]), r.choice(("enet", "2")),
                         world["hop_ip"], r.choice(("bp", "backplane")), str(world["slot"])))
    else:
        path = r.choice(("10.0.0.1", "10.0.0.1", "10.0.0.1/0", "10.0.0.1/bp/0"))
        if layout == "micro800":
            path = "10.0.0.1"
    if r.random() < 0.15:
        world["port"] = r.choice((2222, 44818, 50000))
        path = path.replace("10.0.0.1", f"10.0.0.1:{world['port']}", 1)
    if r.random() < 0.15:
        world["names"] = ["plc-line4.example"]
        path = path.replace("10.0.0.1", "plc-line4.example", 1)
    return world, path


def gen(seed, tier, prop="C01"):
    r = Sim(seed).stream("gen")
    world, path = gen_world(r, prop, tier)
    project = world["project"]
    ref = Ref(project)
    sc = {"engine": "logix", "seed": seed, "prop": prop, "world": world,
          "net": {"chunk": r.choice(("whole", "mixed", "random", "header_split", 1 if r.random() < 0.2 else "mixed")),
                  "send": r.choice(("all", "mixed", "random")), "latency": "small"},
          "driver": {"cls": "LogixDriver", "path": path, "init_tags": True,
                     "init_program_tags": r.random() < 0.85, "log": "verbose" if r.random() < 0.1 else "off",
                     "seq_advance": 0},
          "ops": [], "faults": []}
    total_bytes = sum(len(t.get("init", "")) // 2 for t in project["tags"])
    if sc["net"]["chunk"] == 1 and (len(project["tags"]) > 12 or total_bytes > 4000):
        sc["net"]["chunk"] = "mixed"    # one-byte recv chunks only where the run stays within its raw-I/O budget
    if prop == "C17" or r.random() < 0.2:
        sc["driver"]["seq_advance"] = 65535 - r.randint(0, 40) if r.random() < 0.8 else r.randrange(65536)
    ops = [{"id": "o0", "kind": "open"}]
    n_ops = r.randint(1, 5 if tier == "quick" else 8)
    micro = world["layout"] == "micro800"
    with_prog = sc["driver"]["init_program_tags"]
    for i in range(n_ops):
        oid = f"o{i + 1}"
        c = r.random()
        if prop == "C05":
            if c < 0.5:
                progs = list(project["programs"])
                ops.append({"id": oid, "kind": "get_tag_list",
                            "program": r.choice(["*", None] + progs) if progs else r.choice(["*", None])})
                continue
        if prop == "C02":
            rw = "write" if c < 0.8 else "read"
        elif prop == "C01":
            rw = "read" if c < 0.85 else "write"
        else:
            rw = "read" if c < 0.5 else "write"
        op = gen_rw_op(r, ref, oid, rw, prop, micro, with_prog, tier)
        if op:
            ops.append(op)
        if prop == "C17" and r.random() < 0.4:
            ops.append({"id": oid + "s", "kind": "seq_advance", "n": 65535 - r.randint(0, 60)})
        if r.random() < 0.06:
            ops.append({"id": oid + "c", "kind": "close"})
            ops.append({"id": oid + "r", "kind": "open"})
    if prop == "C05" and project["types"] and r.random() < 0.2:
        # a refused upload, then the program changes (e.g. a download), then a retry: always last, the
        # requests generated above refer to the old member names
        ops.append({"id": "ma", "kind": "get_tag_list", "program": None,
                    "inject": [{"where": "template", "match": {}, "status": r.choice((0x05, 0x08, 0xFF)), "ext": [],
                                "skip": r.choice((0, 1, 2, 3))}]})
        ops.append({"id": "mb", "kind": "mutate_project"})
        ops.append({"id": "mc", "kind": "get_tag_list", "program": "*" if with_prog else None})
    if r.random() < 0.7:
        ops.append({"id": "oz", "kind": "close"})
    sc["ops"] = ops
    if prop != "C05" and r.random() < 0.08:
        # the same driver object is closed, the controller gets another program (renamed members, other handles,
        # moved symbol instance ids), and the driver is opened again: everything it learned has to be learned anew
        if ops[-1]["kind"] != "close":
            ops.append({"id": "mx", "kind": "close"})
        ops.append({"id": "my", "kind": "mutate_project", "ids": True})
        ops.append({"id": "mz", "kind": "open"})
        p2 = copy.deepcopy(project)
        mutate_project(p2, True)
        ref2 = Ref(p2)
        for i in range(r.randint(1, 3)):
            rw = "write" if (prop == "C02" and r.random() < 0.8) or (prop not in ("C01", "C02") and r.random() < 0.5) else "read"
            op = gen_rw_op(r, ref2, f"n{i}", rw, prop, micro, with_prog, tier)
            if op:
                ops.append(op)
    if r.random() < 0.15 and not any(o["kind"] == "mutate_project" for o in ops):
        sc["bystander"] = gen_bystander(r, sc, tier)
    rf = Sim(seed).stream("gen.fault")      # its own stream: the fault-free scenarios of a seed stay what they were
    if rf.random() < 0.12 and "bystander" not in sc and not any(o["kind"] in ("mutate_project", "many_reads") for o in ops):
        # a fail-stop transport fault in the middle of one call (between the pages of an upload, between
        # the fragments or packets of a read/write), then the usual recovery close(); open(): the call that
        # was cut is not judged, everything after the recovery is judged in full against the controller
        idxs = [i for i, o in enumerate(ops) if o["kind"] in ("read", "write", "get_tag_list") and not o.get("inject")]
        if idxs:
            i = rf.choice(idxs)
            victim = copy.deepcopy(ops[i])
            victim.update(id="fv", sacrificed=True)
            d = rf.choice(("send", "recv"))
            kind = rf.choice(("send_epipe", "send_rst") if d == "send" else ("peer_fin", "peer_rst"))
            sc["faults"] = [{"id": "f0", "kind": kind,
                             "at": {"op": "fv", "dir": d, "nth": rf.choice((0, 0, 1, 1, 2, 3, 5, 8)),
                                    "byte": 0 if rf.random() < 0.6 else rf.choice((1, 4, 23, 24, 30, 44))}}]
            if rf.random() < 0.3:
                # ... and while the driver is disconnected the controller gets another program: nothing the cut call
                # left behind (a half-filled upload cache, definitions, instance ids) may survive into the new upload
                del ops[i:]
                ops += [victim, {"id": "fvc", "kind": "close"}, {"id": "fvm", "kind": "mutate_project", "ids": True},
                        {"id": "fvo", "kind": "open"}]
                p2 = copy.deepcopy(project)
                mutate_project(p2, True)
                ref2 = Ref(p2)
                for j in range(rf.randint(1, 3)):
                    rw = "write" if (prop == "C02" and rf.random() < 0.8) or (prop not in ("C01", "C02") and rf.random() < 0.5) else "read"
                    op = gen_rw_op(rf, ref2, f"fn{j}", rw, prop, micro, with_prog, tier)
                    if op:
                        ops.append(op)
            else:
                ops[i:i] = [victim, {"id": "fvc", "kind": "close"}, {"id": "fvo", "kind": "open"}]
    return sc


def mutate_project(project, ids=False):
    """in place; deterministic (gen applies it to a copy to generate the requests that follow it)"""
    for tname, td in project["types"].items():
        if td.get("string_cap") is not None:
            continue
        td["handle"] = (td["handle"] * 7 + 13) % 65535 + 1
        for m in td["members"]:
            if m["name"] and not m["hidden"]:
                m["name"] = m["name"] + "_v2"
    if ids:
        by_scope = {}
        for t in project["tags"]:
            if t.get("kind", "user") == "user":
                by_scope.setdefault(t.get("scope"), []).append(t)
        for ts in by_scope.values():
            rot = [t["instance_id"] for t in ts]
            rot = rot[1:] + rot[:1]
            for t, i in zip(ts, rot):
                t["instance_id"] = i


def derive_second_project(r, project):
    """same tag and type names as `project`, but other instance ids, structure handles and values"""
    p = copy.deepcopy(project)
    p["name"] = ("B" + p.get("name", ""))[:20]
    by_scope = {}
    for t in p["tags"]:
        if t.get("kind", "user") == "user":
            by_scope.setdefault(t.get("scope"), []).append(t)
    for ts in by_scope.values():
        ids = [t["instance_id"] for t in ts]
        k = r.randrange(len(ids)) if len(ids) > 1 else 0
        ids = ids[k:] + ids[:k]
        for t, i in zip(ts, ids):
            t["instance_id"] = i
        for t in ts:
            if t["type"] in reqgen.INTS or t["type"] == "DWORD":
                t["init"] = bytes(b ^ 0xA5 for b in bytes.fromhex(t["init"])).hex()
    for td in p["types"].values():
        if td.get("string_cap") is None:
            # same template instance id, same layout, but another handle and other member names
            td["handle"] = (td["handle"] * 7 + 13) % 65535 + 1
            for m in td["members"]:
                if m["name"] and not m["hidden"]:
                    m["name"] = (m["name"] + "_b")[:40]
    return p


def gen_bystander(r, sc, tier):
    ids = [o["id"] for o in sc["ops"]]
    if r.random() < 0.25 and len(ids) > 1 and sc["driver"].get("init_program_tags", True):
        # second connection to the same controller sharing the first one's tag definitions
        refB = Ref(sc["world"]["project"])
        by = {"mode": "shared_tags", "open_before": ids[1], "reads": {}}
    else:
        projB = derive_second_project(r, sc["world"]["project"])
        refB = Ref(projB)
        by = {"ip": "10.0.0.77", "project": projB, "open_before": r.choice(ids[:2]), "reads": {}}
        # the other controller sits in slot 0 of a chassis behind a bridge, is a CompactLogix, or a Micro800;
        # the second driver is always given the bare address
        c = r.random()
        if c < 0.4:
            by["world"] = {"layout": "clx", "slots": r.choice((2, 4, 7)), "slot": 0, "enet_slot": 1}
        elif c < 0.6 and not projB.get("programs"):
            by["world"] = {"layout": "micro800", "identity": {"product_name": "2080-LC50-48QWB", "rev_major": r.choice((10, 12, 20, 21))}}
        else:
            by["world"] = {"layout": "compact"}
    start = ids.index(by["open_before"])
    for oid in ids[start:]:
        if r.random() < 0.6:
            q = gen_rw_op(r, refB, oid + "B", "read", "C01", (by.get("world") or {}).get("layout") == "micro800", True, tier)
            if q:
                q.pop("inject", None)
                q["reqs"] = [x for x in q["reqs"] if not x.get("invalid")][:30]
                if q["reqs"]:
                    by["reads"][oid] = q
    if r.random() < 0.5 and len(ids) > start + 1:
        by["close_before"] = r.choice(ids[start + 1:])
    return by


def tags_visible(ref, with_prog, for_write):
    ts = reqgen.usable_tags(ref, for_write)
    if not with_prog:
        ts = [t for t in ts if t.get("scope") is None]
    return ts


def overlaps(a, b):
    return a[0] == b[0] and a[1][0] < b[1][1] and b[1][0] < a[1][1]


def gen_rw_op(r, ref, oid, rw, prop, micro, with_prog, tier):
    for_write = rw == "write"
    tags = tags_visible(ref, with_prog, for_write)
    if not tags:
        return None
    c = r.random()
    if c < 0.3:
        n = 1
    elif c < 0.8:
        n = r.randint(2, 8)
    else:
        n = r.randint(9, 40)
    if micro:
        n = min(n, 6)
    reqs, vals = [], []
    taken = []
    long_strings = 0.15 if prop in ("C02",) else 0.05
    # a few requests that cannot succeed also next to the valid ones of C01/C02 runs: the valid ones keep their outcome
    p_invalid = 0.25 if prop == "C03" else (0.05 if prop in ("C01", "C02") else 0.0)
    feat = {"p_bit": 0.25 if prop == "C02" else 0.15}
    attempts = 0
    while len(reqs) < n and attempts < n * 6:
        attempts += 1
        if r.random() < p_invalid:
            inv = reqgen.gen_invalid(r, ref, for_write)
            if inv:
                text, v, kind = inv
                reqs.append({"text": text, "ast": None, "invalid": kind})
                vals.append(v)
                continue
        t = r.choice(tags)
        if reqs and r.random() < 0.08:
            # exact duplicate (same value for writes)
            k = r.randrange(len(reqs))
            if reqs[k].get("ast") is not None:
                reqs.append(copy.deepcopy(reqs[k]))
                vals.append(copy.deepcopy(vals[k]))
                continue
        ast = reqgen.gen_request(r, ref, t, for_write, feat)
        if ast is None:
            continue
        text, base = render(ast)
        if for_write:
            v = reqgen.value_for(r, ref, ast, long_strings)
            exp = ref.expect_write(ast, v)
            me = (exp["key"], exp["range"], exp["kind"], exp["cons"][0][2] if exp["cons"] else None)
            clash = False
            for o in taken:
                if overlaps((me[0], me[1]), (o[0], o[1])):
                    both_bits = me[2] in ("bit", "boolarr_bit", "bitmember") and o[2] == me[2] and me[3] != o[3]
                    # the same bit written twice with any values: the later request decides (sequential semantics)
                    same_bit = me[2] in ("bit", "boolarr_bit") and o[2] == me[2] and me[3] == o[3] and r.random() < 0.5
                    if not (both_bits or same_bit):
                        clash = True
                        break
            if clash:
                continue
            taken.append(me)
            vals.append(v)
        else:
            vals.append(None)
        reqs.append({"text": text, "ast": ast, "invalid": None})
    if not reqs:
        return None
    op = {"id": oid, "kind": rw, "reqs": reqs}
    if for_write:
        op["values"] = vals
        op["flat"] = len(reqs) == 1 and r.random() < 0.5
    if (prop == "C03" and r.random() < 0.35) or (prop == "C02" and for_write and r.random() < 0.15) or \
            (prop == "C01" and not for_write and r.random() < 0.1):
        # the controller itself refuses one of the services (any non-zero general status)
        valid_idx = [i for i, q in enumerate(reqs) if not q.get("invalid")]
        if valid_idx:
            i = r.choice(valid_idx)
            # only aim at requests that are alone on their address (else the injection could hit a twin)
            st = r.choice((0x04, 0x05, 0x08, 0x0F, 0x13, 0x1F, 0xFF, r.randrange(1, 256)))
            if st == 6:
                st = 5
            ext = () if r.random() < 0.5 else (r.choice((0x2105, 0x2107, 0x2104, r.randrange(65536))),)
            a = ref.resolve(reqs[i]["ast"])
            # no other request of the call (valid or planted-invalid) may name the same tag
            same = [j for j, q in enumerate(reqs) if a["key"][1] in q["text"]]
            if len(same) == 1:
                # sticky: every service on that tag fails; otherwise only the k-th one (e.g. one fragment of a transfer)
                sticky = r.random() < 0.5
                op["inject"] = [{"where": "tag_service", "match": {"key": [a["key"][0], a["key"][1]]}, "status": st,
                                 "ext": list(ext), "req": i, "sticky": sticky, "skip": 0 if sticky else r.choice((0, 0, 1, 2))}]
    return op


# =============================================================================
def directed(tier, prop):
    out = []
    if prop == "C04":
        out += directed_sizes(tier)
        out += directed_struct_sizes(tier)
        out += directed_multi_fill(tier)
        out += directed_borrowed(tier)
        out += directed_boolarr(tier)
    if prop == "C03":
        out += directed_shapes()
        out += directed_sizes_mixed()
    if prop == "C17":
        out += directed_wrap(tier)
    if prop == "C09":
        out += directed_indices(tier)
    return out


def directed_indices(tier):
    """element ids around the 8/16/32-bit segment formats: a 70000-element array and a [300,3,80] array,
    symbolic and symbol-instance addressing, instance ids above 255 and 65535"""
    out = []
    idx1 = sorted({0, 1, 2, 127, 128, 254, 255, 256, 257, 1000, 32767, 32768, 65534, 65535, 65536, 65537, 69998, 69999})
    for fw, inst0 in ((20, 1), (32, 1), (32, 0xFF), (32, 0x100), (32, 0xFFFF), (32, 0x10000), (32, 0x12345678)):
        tags = [{"name": "big", "type": "SINT", "dims": [70000]}, {"name": "cube", "type": "INT", "dims": [300, 3, 80]}]
        world = base_world(tags, large=True, fw=fw)
        for k, t in enumerate(world["project"]["tags"]):
            t["instance_id"] = inst0 + k
            t["init"] = bytes((i * 31 + k) % 256 for i in range(70000 if t["name"] == "big" else 300 * 3 * 80 * 2)).hex()
        reqs = []
        for i in idx1:
            a = {"scope": None, "tag": "big", "idx": [i], "path": [], "bit": None, "count": None}
            reqs.append({"text": render(a)[0], "ast": a, "invalid": None})
        for i, j, k in ((0, 0, 0), (255, 2, 79), (256, 0, 1), (299, 2, 79), (1, 1, 1), (257, 1, 78)):
            a = {"scope": None, "tag": "cube", "idx": [i, j, k], "path": [], "bit": None, "count": 2 if k < 79 else None}
            reqs.append({"text": render(a)[0], "ast": a, "invalid": None})
        ops = [{"id": "o0", "kind": "open"}, {"id": "o1", "kind": "read", "reqs": reqs}]
        for n, q in enumerate(reqs[:24:2]):
            ops.append({"id": f"s{n}", "kind": "read", "reqs": [q]})
        wa = {"scope": None, "tag": "big", "idx": [65536], "path": [], "bit": None, "count": 3}
        ops.append({"id": "w1", "kind": "write", "reqs": [{"text": render(wa)[0], "ast": wa, "invalid": None}],
                    "values": [[1, -2, 3]], "readback": True})
        ops.append({"id": "oz", "kind": "close"})
        out.append({"engine": "logix", "seed": 4000 + fw + inst0 % 1000, "prop": "C09", "world": world,
                    "net": {"chunk": "whole", "send": "all", "latency": "zero"},
                    "driver": {"cls": "LogixDriver", "path": "10.0.0.1", "init_tags": True, "init_program_tags": False,
                               "log": "off", "seq_advance": 0}, "ops": ops, "faults": []})
    return out


def base_world(tags, types=None, large=True, layout="compact", fw=32, frag="max"):
    project = {"name": "DIRECTED", "types": types or {}, "tags": [], "programs": {}, "wallclock_us": 10**15}
    inst = 1
    for t in tags:
        t = dict(t)
        t.setdefault("scope", None)
        t.setdefault("kind", "user")
        t.setdefault("access", 0)
        t.setdefault("alias", False)
        t.setdefault("software_control", 1 << 26)
        t["instance_id"] = inst
        inst += 1
        project["tags"].append(t)
    world = {"layout": layout, "ip": "10.0.0.1", "identity": {"rev_major": fw}, "project": project,
             "policy": {} if large else {"large_fo": "refuse"},
             "choices": {"frag": frag, "page": "max", "handles": "small"}}
    return world


def directed_sizes(tier):
    """every tag size in [cs-64, cs+64] (and around 2cs, 3cs) x name length x instance/symbolic x
    alone/next to a small tag x read/write, for cs in {500, 4000}"""
    out = []
    step = 1 if tier == "thorough" else 1
    for cs, large in ((500, False), (4000, True)):
        centers = (cs, 2 * cs) if tier == "quick" else (cs, 2 * cs, 3 * cs)
        for center in centers:
            # whole multiples of the fragment payload (cs minus a header of 14..46 bytes) lie below k*cs
            k_ = center // cs
            rng = range(center - 64, center + 65, step) if center == cs else range(center - 48 * k_ - 8, center + 25, 1)
            for size in rng:
                for name_len in ((1, 8) if tier == "quick" else (1, 2, 8, 21, 40)):
                    for fw in ((32, 20) if tier == "thorough" else (32,)):
                        name = ("T" * name_len)
                        tags = [{"name": name, "type": "SINT", "dims": [size]}, {"name": "small", "type": "DINT", "dims": []}]
                        world = base_world(tags, large=large, fw=fw)
                        ast = {"scope": None, "tag": name, "idx": None, "path": [], "bit": None, "count": size}
                        text, _ = render(ast)
                        small = {"scope": None, "tag": "small", "idx": None, "path": [], "bit": None, "count": None}
                        ops = [{"id": "o0", "kind": "open"},
                               {"id": "o1", "kind": "read", "reqs": [{"text": text, "ast": ast, "invalid": None}]},
                               {"id": "o2", "kind": "read", "reqs": [{"text": text, "ast": ast, "invalid": None},
                                                                      {"text": "small", "ast": small, "invalid": None}]},
                               {"id": "o3", "kind": "write", "reqs": [{"text": text, "ast": ast, "invalid": None}],
                                "values": [[(i * 7 + size) % 256 - 128 for i in range(size)]], "readback": False},
                               {"id": "o4", "kind": "write", "reqs": [{"text": text, "ast": ast, "invalid": None},
                                                                       {"text": "small", "ast": small, "invalid": None}],
                                "values": [[(i * 5 + 1) % 256 - 128 for i in range(size)], 77], "readback": False},
                               {"id": "o5", "kind": "close"}]
                        out.append({"engine": "logix", "seed": 1000 + size, "prop": "C04", "world": world,
                                    "net": {"chunk": "whole", "send": "all", "latency": "zero"},
                                    "driver": {"cls": "LogixDriver", "path": "10.0.0.1", "init_tags": True,
                                               "init_program_tags": False, "log": "off", "seq_advance": 0},
                                    "ops": ops, "faults": []})
    return out


def directed_sizes_mixed():
    """C03: a request whose size sits around the connection size, next to a small valid and a planted-invalid
    request - whatever the packing does with the big one, the others keep their outcome"""
    out = []
    for cs, large in ((500, False), (4000, True)):
        for size in range(cs - 40, cs + 12):
            tags = [{"name": "buf", "type": "SINT", "dims": [size]}, {"name": "small", "type": "DINT", "dims": []}]
            world = base_world(tags, large=large)
            big = {"scope": None, "tag": "buf", "idx": None, "path": [], "bit": None, "count": size}
            small = {"scope": None, "tag": "small", "idx": None, "path": [], "bit": None, "count": None}
            rq = [{"text": render(big)[0], "ast": big, "invalid": None}, {"text": "small", "ast": small, "invalid": None},
                  {"text": "NoSuchTag", "ast": None, "invalid": "unknown_tag"}]
            ops = [{"id": "o0", "kind": "open"}, {"id": "o1", "kind": "read", "reqs": rq},
                   {"id": "o2", "kind": "read", "reqs": [rq[1], rq[0], rq[2]]},
                   {"id": "o3", "kind": "write", "reqs": [dict(x) for x in rq],
                    "values": [[(i * 3) % 256 - 128 for i in range(size)], 5, 1], "readback": False},
                   {"id": "o4", "kind": "close"}]
            out.append({"engine": "logix", "seed": 2000 + size, "prop": "C03", "world": world,
                        "net": {"chunk": "whole", "send": "all", "latency": "zero"},
                        "driver": {"cls": "LogixDriver", "path": "10.0.0.1", "init_tags": True, "init_program_tags": False,
                                   "log": "off", "seq_advance": 0}, "ops": ops, "faults": []})
    return out


def directed_struct_sizes(tier):
    """C04: structure tags carry a 4-byte type field in replies and requests: arrays of a 4-byte UDT around cs"""
    out = []
    ud = {"UD4": {"name": "UD4", "template_id": 0x234, "handle": 0x1357, "size": 4, "align": 4, "string_cap": None,
                  "predefined": False, "members": [{"name": "a", "type": "DINT", "array": 0, "offset": 0, "bit": None,
                                                    "hidden": False}]}}
    for cs, large in ((500, False), (4000, True)):
        for n in range((cs - 64) // 4, (cs + 64) // 4 + 1):
            for name in ("S", "StructTag_17"):
                tags = [{"name": name, "type": "UD4", "dims": [n]}, {"name": "small", "type": "DINT", "dims": []}]
                world = base_world(tags, types=copy.deepcopy(ud), large=large)
                ast = {"scope": None, "tag": name, "idx": None, "path": [], "bit": None, "count": n}
                small = {"scope": None, "tag": "small", "idx": None, "path": [], "bit": None, "count": None}
                vals = [{"a": (i * 11) % 1000} for i in range(n)]
                ops = [{"id": "o0", "kind": "open"},
                       {"id": "o1", "kind": "read", "reqs": [{"text": render(ast)[0], "ast": ast, "invalid": None}]},
                       {"id": "o2", "kind": "read", "reqs": [{"text": render(ast)[0], "ast": ast, "invalid": None},
                                                              {"text": "small", "ast": small, "invalid": None}]},
                       {"id": "o3", "kind": "write", "reqs": [{"text": render(ast)[0], "ast": ast, "invalid": None}],
                        "values": [vals], "readback": False},
                       {"id": "o4", "kind": "write", "reqs": [{"text": render(ast)[0], "ast": ast, "invalid": None},
                                                               {"text": "small", "ast": small, "invalid": None}],
                        "values": [vals, 3], "readback": False},
                       {"id": "o5", "kind": "close"}]
                out.append({"engine": "logix", "seed": 3000 + n, "prop": "C04", "world": world,
                            "net": {"chunk": "whole", "send": "all", "latency": "zero"},
                            "driver": {"cls": "LogixDriver", "path": "10.0.0.1", "init_tags": True,
                                       "init_program_tags": False, "log": "off", "seq_advance": 0},
                            "ops": ops, "faults": []})
    return out


def directed_multi_fill(tier):
    """C04: one read()/write() of six equally sized structure tags, the size swept byte by byte through the
    values at which two (three) of them just fit / just do not fit one multi-service packet - the first
    packet of a call and the later ones have to be accounted alike"""
    out = []
    for cs, large in ((500, False), (4000, True)):
        sizes = set()
        for per in (2, 3):
            hi = cs // per
            sizes.update(range(hi - (34 if tier == "quick" else 60), hi + 2))
        for size in sorted(sizes):
            tname = f"UF{size}"
            ud = {tname: {"name": tname, "template_id": 0x321, "handle": 0x2468, "size": size, "align": 1, "string_cap": None,
                          "predefined": False, "members": [{"name": "d", "type": "SINT", "array": size, "offset": 0,
                                                            "bit": None, "hidden": False}]}}
            names = [f"F{i}" for i in range(6)]
            tags = [{"name": n_, "type": tname, "dims": []} for n_ in names]
            world = base_world(tags, types=ud, large=large)
            reqs = [{"text": n_, "ast": {"scope": None, "tag": n_, "idx": None, "path": [], "bit": None, "count": None},
                     "invalid": None} for n_ in names]
            vals = [{"d": [(i * 3 + k) % 256 - 128 for i in range(size)]} for k in range(6)]
            ops = [{"id": "o0", "kind": "open"}, {"id": "o1", "kind": "read", "reqs": reqs},
                   {"id": "o2", "kind": "write", "reqs": [dict(q) for q in reqs], "values": vals, "readback": False},
                   {"id": "o3", "kind": "close"}]
            out.append({"engine": "logix", "seed": 4000 + size, "prop": "C04", "world": world,
                        "net": {"chunk": "whole", "send": "all", "latency": "zero"},
                        "driver": {"cls": "LogixDriver", "path": "10.0.0.1", "init_tags": True, "init_program_tags": False,
                                   "log": "off", "seq_advance": 0}, "ops": ops, "faults": []})
    return out


def directed_borrowed(tier):
    """C04: the documented second connection with borrowed tag definitions (init_tags=False, plc2._tags = plc1.tags).
    Its very first connected operation is a read around the 500-byte connection size towards a target that
    refuses the extended Forward Open - on a Micro800 nothing before that read has opened the connection"""
    out = []
    for micro in (True, False):
        for size in range(440, 560, 2 if tier == "quick" else 1):
            tags = [{"name": "buf", "type": "SINT", "dims": [size]}, {"name": "small", "type": "DINT", "dims": []}]
            world = base_world(tags, large=False, layout="micro800" if micro else "compact", fw=12 if micro else 32)
            if micro:
                world["identity"]["product_name"] = "2080-LC50-48QWB"
            big = {"scope": None, "tag": "buf", "idx": None, "path": [], "bit": None, "count": size}
            small = {"scope": None, "tag": "small", "idx": None, "path": [], "bit": None, "count": None}
            ops = [{"id": "o0", "kind": "open"},
                   {"id": "o1", "kind": "read", "reqs": [{"text": "small", "ast": small, "invalid": None}]},
                   {"id": "o2", "kind": "close"}]
            by = {"mode": "shared_tags", "open_before": "o1",
                  "reads": {"o1": {"id": "o1B", "kind": "read", "reqs": [{"text": render(big)[0], "ast": big, "invalid": None}]}}}
            out.append({"engine": "logix", "seed": 5000 + size, "prop": "C04", "world": world,
                        "net": {"chunk": "whole", "send": "all", "latency": "zero"},
                        "driver": {"cls": "LogixDriver", "path": "10.0.0.1", "init_tags": True, "init_program_tags": False,
                                   "log": "off", "seq_advance": 0}, "ops": ops, "faults": [], "bystander": by})
    return out


def directed_boolarr(tier):
    """C04: a BOOL-array read is answered with whole DWORDs from the array's first one, whatever start bit was asked
    for: reads of a few bits near the end of arrays whose DWORD count sits around the connection size"""
    out = []
    for cs, large in ((500, False), (4000, True)):
        for nd in range(cs // 4 - 6, cs // 4 + 6):
            tags = [{"name": "flags", "type": "DWORD", "dims": [nd]}, {"name": "small", "type": "DINT", "dims": []}]
            world = base_world(tags, large=large)
            small = {"scope": None, "tag": "small", "idx": None, "path": [], "bit": None, "count": None}
            ops = [{"id": "o0", "kind": "open"}]
            k = 0
            for start, cnt in ((32 * (nd - 2), 64), (32 * nd - 40, 33), (32 * (nd - 1) + 3, 2), (0, 32 * nd)):
                if start < 0:
                    continue
                ast = {"scope": None, "tag": "flags", "idx": [start] if start else None, "path": [], "bit": None, "count": cnt}
                q = {"text": render(ast)[0], "ast": ast, "invalid": None}
                k += 1
                ops.append({"id": f"r{k}", "kind": "read", "reqs": [q]})
                ops.append({"id": f"m{k}", "kind": "read", "reqs": [{"text": "small", "ast": small, "invalid": None}, dict(q)]})
            ops.append({"id": "oz", "kind": "close"})
            out.append({"engine": "logix", "seed": 6000 + nd, "prop": "C04", "world": world,
                        "net": {"chunk": "whole", "send": "all", "latency": "zero"},
                        "driver": {"cls": "LogixDriver", "path": "10.0.0.1", "init_tags": True, "init_program_tags": False,
                                   "log": "off", "seq_advance": 0}, "ops": ops, "faults": []})
    return out


def directed_shapes():
    tags = [{"name": "a", "type": "DINT", "dims": []}, {"name": "b", "type": "DINT", "dims": [4]}]
    out = []
    for kind in ("read", "write"):
        world = base_world(tags)
        op = {"id": "o1", "kind": kind, "reqs": []}
        if kind == "write":
            op["values"] = []
        out.append({"engine": "logix", "seed": 1, "prop": "C03", "world": world,
                    "net": {"chunk": "whole", "send": "all", "latency": "zero"},
                    "driver": {"cls": "LogixDriver", "path": "10.0.0.1", "init_tags": True,
                               "init_program_tags": False, "log": "off", "seq_advance": 0},
                    "ops": [{"id": "o0", "kind": "open"}, op, {"id": "o2", "kind": "close"}], "faults": []})
    return out


def counter_distance(n_small):
    """one read call of a fragmented tag followed by n_small small tags: the request packets take their
    sequence counts when they are constructed, the multi-service packets afterwards, and the fragmented
    request - constructed first - is sent last.  With n_small + (number of multi packets) == 65535 the last
    multi-service packet and the fragmented request carry the same count although adjacent on the wire."""
    tags = [{"name": "big", "type": "DINT", "dims": [2000]}, {"name": "w", "type": "DINT", "dims": []}]
    big = {"scope": None, "tag": "big", "idx": None, "path": [], "bit": None, "count": 2000}
    w = {"scope": None, "tag": "w", "idx": None, "path": [], "bit": None, "count": None}
    world = base_world(tags, large=True)
    reqs = [{"text": render(big)[0], "ast": big, "invalid": None}] + [{"text": "w", "ast": w, "invalid": None}] * n_small
    return {"engine": "logix", "seed": 65535 + n_small, "prop": "C17", "world": world,
            "net": {"chunk": "whole", "send": "all", "latency": "zero"},
            "driver": {"cls": "LogixDriver", "path": "10.0.0.1", "init_tags": True, "init_program_tags": False,
                       "log": "off", "seq_advance": 0},
            "ops": [{"id": "o0", "kind": "open"}, {"id": "o1", "kind": "read", "reqs": reqs}, {"id": "o2", "kind": "close"}],
            "faults": []}


def directed_wrap(tier):
    """the 16-bit counter wraps inside every kind of multi-packet operation"""
    out = []
    if tier == "thorough":
        # >= 70 000 connected messages on one connection (the counter wraps once, at a phase set by seq_advance)
        for adv in (0, 1, 30000, 65534):
            tags = [{"name": "w", "type": "DINT", "dims": []}]
            wq = {"scope": None, "tag": "w", "idx": None, "path": [], "bit": None, "count": None}
            sc = {"engine": "logix", "seed": 70000 + adv, "prop": "C17", "world": base_world(tags, large=adv % 2 == 0),
                  "net": {"chunk": "whole", "send": "all", "latency": "zero"}, "budgets": {"frames": 200000},
                  "driver": {"cls": "LogixDriver", "path": "10.0.0.1", "init_tags": True, "init_program_tags": False,
                             "log": "off", "seq_advance": adv},
                  "ops": [{"id": "o0", "kind": "open"},
                          {"id": "o1", "kind": "many_reads", "n": 70000, "req": {"text": "w", "ast": wq, "invalid": None}},
                          {"id": "o2", "kind": "close"}], "faults": []}
            out.append(sc)
    # 65272 + 263 multi-service packets = 65535 draws between the fragmented request and the packet sent before it
    out += [counter_distance(n) for n in ((65271, 65272, 65273) if tier == "thorough" else (65272,))]
    tags = [{"name": "big", "type": "DINT", "dims": [400]}, {"name": "w", "type": "DINT", "dims": []},
            {"name": "x", "type": "INT", "dims": [6]}]
    big = {"scope": None, "tag": "big", "idx": None, "path": [], "bit": None, "count": 400}
    w5 = {"scope": None, "tag": "w", "idx": None, "path": [], "bit": 5, "count": None}
    x = {"scope": None, "tag": "x", "idx": None, "path": [], "bit": None, "count": 6}
    for adv in range(65535 - 14, 65535 + 3):
        world = base_world(tags, large=False)
        ops = [{"id": "o0", "kind": "open"},
               {"id": "o1", "kind": "read", "reqs": [{"text": render(big)[0], "ast": big, "invalid": None},
                                                      {"text": render(x)[0], "ast": x, "invalid": None}]},
               {"id": "o2", "kind": "write", "reqs": [{"text": render(big)[0], "ast": big, "invalid": None},
                                                       {"text": render(w5)[0], "ast": w5, "invalid": None}],
                "values": [list(range(400)), True], "readback": True},
               {"id": "o3", "kind": "close"}]
        out.append({"engine": "logix", "seed": adv, "prop": "C17", "world": world,
                    "net": {"chunk": "whole", "send": "all", "latency": "zero"},
                    "driver": {"cls": "LogixDriver", "path": "10.0.0.1", "init_tags": True,
                               "init_program_tags": False, "log": "off", "seq_advance": adv % 65536},
                    "ops": ops, "faults": []})
    return out


# =============================================================================
def shrink_candidates(sc):
    out = []
    ops = sc["ops"]
    if sc.get("bystander"):
        c = copy.deepcopy(sc)
        del c["bystander"]
        out.append(c)
        for oid in list(sc["bystander"].get("reads", {})):
            c = copy.deepcopy(sc)
            del c["bystander"]["reads"][oid]
            out.append(c)
        if "close_before" in sc["bystander"]:
            c = copy.deepcopy(sc)
            del c["bystander"]["close_before"]
            out.append(c)
    # drop whole ops (keep the first open)
    for i in range(len(ops) - 1, 0, -1):
        c = copy.deepcopy(sc)
        del c["ops"][i]
        out.append(c)
    # drop requests inside calls
    for i, op in enumerate(ops):
        if op["kind"] in ("read", "write") and len(op["reqs"]) > 1:
            nreq = len(op["reqs"])
            for lo, hi in ((0, nreq // 2), (nreq // 2, nreq)):
                c = copy.deepcopy(sc)
                keep = [k for k in range(nreq) if not (lo <= k < hi)]
                c["ops"][i]["reqs"] = [op["reqs"][k] for k in keep]
                if "values" in op:
                    c["ops"][i]["values"] = [op["values"][k] for k in keep]
                if "inject" in op:
                    c["ops"][i].pop("inject")
                out.append(c)
            if nreq <= 60:
                for k in range(nreq):
                    c = copy.deepcopy(sc)
                    del c["ops"][i]["reqs"][k]
                    if "values" in op:
                        del c["ops"][i]["values"][k]
                    if "inject" in op:
                        c["ops"][i].pop("inject")
                    out.append(c)
    # simplest peer policies
    if sc.get("net", {}).get("chunk") != "whole" or sc["net"].get("send") != "all":
        c = copy.deepcopy(sc)
        c["net"] = {"chunk": "whole", "send": "all", "latency": "zero"}
        out.append(c)
    ch = sc["world"].get("choices", {})
    if ch.get("frag") != "max" or ch.get("page") != "max" or ch.get("handles") != "small":
        c = copy.deepcopy(sc)
        c["world"]["choices"] = {"frag": "max", "page": "max", "handles": "small"}
        out.append(c)
    if sc["driver"].get("seq_advance"):
        c = copy.deepcopy(sc)
        c["driver"]["seq_advance"] = 0
        out.append(c)
    if sc["driver"].get("log") == "verbose":
        c = copy.deepcopy(sc)
        c["driver"]["log"] = "off"
        out.append(c)
    # drop unreferenced world items
    used = set()
    for op in ops:
        for q in op.get("reqs", []):
            if q.get("ast"):
                used.add((q["ast"].get("scope"), q["ast"]["tag"]))
    tags = sc["world"]["project"]["tags"]
    droppable = [i for i, t in enumerate(tags) if (t.get("scope"), t["name"]) not in used and t.get("kind", "user") != "program"]
    if droppable:
        c = copy.deepcopy(sc)
        c["world"]["project"]["tags"] = [t for i, t in enumerate(tags) if i not in set(droppable)]
        out.append(c)
        half = set(droppable[:len(droppable) // 2])
        if half:
            c = copy.deepcopy(sc)
            c["world"]["project"]["tags"] = [t for i, t in enumerate(tags) if i not in half]
            out.append(c)
    # drop structure types no remaining tag (or kept type) refers to
    types = sc["world"]["project"]["types"]
    needed = set()

    def need(tn):
        if tn in types and tn not in needed:
            needed.add(tn)
            for m in types[tn]["members"]:
                need(m["type"])
    for t in tags:
        if "type" in t:
            need(t["type"])
    if len(needed) < len(types):
        c = copy.deepcopy(sc)
        c["world"]["project"]["types"] = {k: v for k, v in types.items() if k in needed}
        out.append(c)
    # plainest controller: recent firmware, large connection accepted, one chassis
    if sc["world"].get("layout") not in ("compact",) and sc["world"].get("layout") != "micro800":
        c = copy.deepcopy(sc)
        c["world"]["layout"] = "compact"
        c["driver"]["path"] = "10.0.0.1"
        for k in ("port", "names"):
            c["world"].pop(k, None)
        out.append(c)
    return out


def sample(sc):
    return {"prop": sc.get("prop"), "seed": sc["seed"], "layout": sc["world"]["layout"],
            "identity": sc["world"].get("identity"), "policy": sc["world"].get("policy"),
            "choices": sc["world"].get("choices"), "net": sc.get("net"), "driver": sc["driver"],
            "n_tags": len(sc["world"]["project"]["tags"]), "n_types": len(sc["world"]["project"]["types"]),
            "second_driver": bool(sc.get("bystander")),
            "ops": [{"kind": o["kind"], "reqs": [q["text"] for q in o.get("reqs", [])][:6],
                     "values": [str(v)[:40] for v in o.get("values", [])][:6]} for o in sc["ops"]][:8]}
