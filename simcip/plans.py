"""Which engines decide which property, how many runs per tier, and the evidence texts."""
from .kernel import derive_seed
from . import runner

# per property: list of parts.  part = (engine, kind, quick_n, thorough_n)
#   kind 'gen': n seeded random scenarios ; kind 'directed': the engine's fixed scenario set
PLANS = {
    "C12": {
        "level": "fault_enumeration",
        "parts": [("sockframe", "directed", None, None), ("sockframe", "gen", 20000, 400000)],
        "budget_s": {"quick": 60, "thorough": 600},
        "rule": ("scenario = (direction, frame body length, composition of the frame into raw recv/send "
                 "chunk sizes, optional fault {FIN,RST,timeout,EPIPE,send==0} at a byte position); directed set: "
                 "all compositions of the first 6 bytes, first chunk 1..30, boundary lengths x chunk policies, "
                 "every fault kind after every byte of small frames; plus seeded random scenarios. A run is "
                 "non-trivial when the C12 oracle was evaluated; distinct = distinct (direction, trigger class, "
                 "fault/no fault, frame-size class) shapes"),
        "real": ["pycomm3.socket_.Socket"],
        "stub": ["socket module (SimNet)", "peer (FramePeer)"],
        "assumptions": ["recv never returns bytes of two frames in one call (request/reply protocol)",
                        "termination bound: at most len(frame)+8 raw socket calls per receive()/send()"],
    },
}


def plan_for(prop, tier):
    p = PLANS.get(prop)
    if p is None:
        return None
    q = dict(p)
    q["budget_s"] = p["budget_s"][tier]
    return q


def build_tasks(plan, prop, tier, seed, budget_s):
    tasks = []
    for (eng_name, kind, qn, tn) in plan["parts"]:
        eng = runner.engine(eng_name)
        takes_prop = getattr(eng, "GEN_TAKES_PROP", False)
        if kind == "directed":
            scs = eng.directed(tier, prop) if takes_prop else eng.directed(tier)
            per = max(1, (len(scs) + 31) // 32)
            for i in range(0, len(scs), per):
                tasks.append({"engine": eng_name, "prop": prop, "tier": tier, "kind": "list",
                              "scenarios": scs[i:i + per], "det_every": 97, "budget_s": budget_s,
                              "gen_takes_prop": takes_prop})
        else:
            n = qn if tier == "quick" else tn
            seeds = [derive_seed(seed, eng_name, prop, i) % (2**48) for i in range(n)]
            per = max(1, (n + 63) // 64)
            for i in range(0, n, per):
                tasks.append({"engine": eng_name, "prop": prop, "tier": tier, "kind": "gen",
                              "seeds": seeds[i:i + per], "det_every": 53, "budget_s": budget_s,
                              "gen_takes_prop": takes_prop})
    return tasks
