"""Which engines decide which property, how many runs per tier, and the evidence texts."""
from .kernel import derive_seed
from . import runner

# per property: list of parts.  part = (engine, kind, quick_n, thorough_n)
#   kind 'gen': n seeded random scenarios ; kind 'directed': the engine's fixed scenario set
PLANS = {
    "C12": {
        "level": "fault_enumeration",
        "parts": [("sockframe", "directed", None, None), ("sockframe", "gen", 100000, 3000000)],
        "budget_s": {"quick": 60, "thorough": 600},
        "rule": ("scenario = (direction, frame body length, composition of the frame into raw recv/send "
                 "chunk sizes, optional fault {FIN,RST,timeout,EPIPE,send==0} at a byte position); directed set: "
                 "all compositions of the first 8 bytes (11 in thorough), first chunk 1..30, boundary lengths x chunk policies, "
                 "every fault kind after every byte of small frames; two Socket objects used by two caller threads at once (162 "
                 "directed + 4 % of the random runs; a seeded scheduler picks the thread that continues after every raw socket "
                 "call); plus seeded random scenarios. A run is "
                 "non-trivial when the C12 oracle was evaluated; distinct = distinct (direction, trigger class, "
                 "fault/no fault, frame-size class) shapes"),
        "real": ["pycomm3.socket_.Socket"],
        "stub": ["socket module (SimNet)", "peer (FramePeer)", "thread scheduling (kernel.Baton: real threads, one running at a time)"],
        "assumptions": ["recv never returns bytes of two frames in one call (request/reply protocol)",
                        "termination bound: at most len(frame)+8 raw socket calls per receive()/send()"],
    },
}

LOGIX_REAL = ["pycomm3.socket_.Socket", "pycomm3.CIPDriver", "pycomm3.LogixDriver", "all pycomm3.packets classes",
              "pycomm3.cip data types / custom_types", "logging (real, in-memory sink for a fraction of runs)"]
LOGIX_STUB = ["socket module (SimNet)", "os.urandom (seeded)", "time.time (virtual clock)",
              "EtherNet/IP device, chassis, connection manager, Logix controller (reference models, no pycomm3 import)"]
LOGIX_RULE = ("scenario = generated controller project (types, tags, memory image) + firmware/Micro800/Forward-Open policy + "
              "peer choices (recv chunking, partial sends, fragment and page capacities, handle values) + call history "
              "(open/read/write/get_tag_list/close with generated request lists) + in 12 % of the runs a second LogixDriver instance "
              "in the same process, interleaved call by call, talking to another controller with the same tag/type names but other "
              "instance ids, handles, member names and values; non-trivial = the property's oracle was "
              "evaluated on at least one call; distinct = distinct abstract trace shapes (op kinds and outcomes, services "
              "executed at the target, number of multi-service packets, request-count class, planted-invalid kinds)")


def _logix(prop, level, qn, tn, directed=False, budget=(180, 1800), extra_rule="", assumptions=()):
    parts = []
    if directed:
        parts.append(("logix", "directed", None, None))
    parts.append(("logix", "gen", qn, tn))
    return {"level": level, "parts": parts, "budget_s": {"quick": budget[0], "thorough": budget[1]},
            "rule": LOGIX_RULE + extra_rule, "real": LOGIX_REAL, "stub": LOGIX_STUB,
            "want_probes": ["frag_read_ge3", "frag_write_ge3", "multi_service_ge2_packets", "symbol_list_partial",
                            "symbol_list_ge3_pages", "template_fragment_partial", "template_cut_inside_member_record",
                            "first_chunk_lt4", "send_partial", "standard_fo_fallback_taken", "micro800_open",
                            "sequence_wrap_inside_call", "status6_on_fragmented_read", "read_fragment_empty",
                            "second_driver_read_interleaved"],
            "assumptions": ["benign nondeterminism only (no transport faults): the quantifier of this property has no faults",
                            "reference controller follows 1756-PM020 / CIP Vol 1; strict rules named in DESIGN 3.4"] + list(assumptions)}


PLANS.update({
    "C01": _logix("C01", "exploration", 12000, 200000),
    "C02": _logix("C02", "exploration", 12000, 200000),
    "C03": _logix("C03", "exploration", 12000, 200000, directed=True),
    "C04": _logix("C04", "exploration", 5000, 60000, directed=True, budget=(180, 1800),
                  extra_rule="; directed set: every tag size in [cs-64, cs+64] and around 2cs (3cs thorough) x name length x "
                             "read/write x alone/next to a small tag for cs in {500, 4000}"),
    "C05": _logix("C05", "exploration", 6000, 80000),
    "C09": _logix("C09", "exploration", 8000, 150000, directed=True),
    "C11": _logix("C11", "exploration", 4000, 100000),
    "C17": _logix("C17", "exploration", 6000, 80000, directed=True),
})

PLANS["C10"] = {
    "level": "fault_enumeration",
    "parts": [("lifecycle", "directed", None, None), ("lifecycle", "gen", 15000, 400000)],
    "budget_s": {"quick": 120, "thorough": 1200},
    "rule": ("scenario = driver class (LogixDriver/CIPDriver) x target policy {large FO ok, large refused, all refused, session "
             "refused, forward close refused} x call history over open/close/read/write/generic(connected|unconnected|"
             "unconnected_send)/with-ok/with-raise/idle x fault plan; directed part: for short histories the fault-free run plus "
             "EVERY single-fault position (k-th client message / k-th reply frame of every call, kinds EPIPE/RST/send-timeout and "
             "FIN/RST/stall; thorough: also mid-frame bytes 1 and 24); random part: 1 (quick) to 3 (thorough) faults at positions of "
             "the fault-free twin, plus connect/DNS/close faults; every run ends with the epilogue close(); open(); use; close() "
             "after the faults stopped. distinct = distinct (op kind, outcome class, fault fired) sequences"),
    "real": LOGIX_REAL, "stub": LOGIX_STUB,
    "want_probes": [],
    "assumptions": ["fatal faults kill the TCP connection for good; the target drops the session bound to it but keeps CIP "
                    "connections until their timeout (CIP Vol 2: connections time out, they are not closed by a TCP close)",
                    "sessions in which a fault fired are exempt from the target-side part of I3 (DESIGN 6 C10)",
                    "no data-value oracle under faults (a stale reply after a transient fault is outside the statement)"],
}

GEN_RULE = ("scenario = chassis layout (bare device / CompactLogix / ControlLogix with bridge and modules) + identities + scripted "
            "generic objects + call list; generic_message calls draw service, class/instance/attribute (int or 1/2/4-byte bytes, "
            "values around 0xFF/0x100 and 0xFFFF/0x10000), request data length (odd/even, 0..3900), transport (connected / UCMM / "
            "Unconnected Send), route_path form (True/False/str/segment list/bytes), reply status, extended status and data; "
            "helpers get_plc_name/info, get_module_info(slot), get/set_plc_time under the virtual clock; list_identity and discover "
            "over simulated UDP with drop/duplicate/reorder. distinct = distinct (call kind, transport, outcome, route form, data "
            "type) sequences")
PLANS["C14"] = {"level": "exploration", "parts": [("generic", "gen", 20000, 400000)], "budget_s": {"quick": 90, "thorough": 900},
                "rule": GEN_RULE, "real": LOGIX_REAL, "stub": LOGIX_STUB,
                "assumptions": ["a direct UCMM generic message carries the route after the request data by documented design "
                                "(DESIGN 3.4 rule 2): objects accept trailing bytes and the oracle expects request_data + route",
                                "unconnected_send=True with route_path=False and bytes ids of length other than 1/2/4 are not generated "
                                "(DESIGN 6 C14)"]}
PLANS["C16"] = {"level": "exploration", "parts": [("generic", "directed", None, None), ("generic", "gen", 16000, 400000)], "budget_s": {"quick": 90, "thorough": 900},
                "rule": GEN_RULE, "real": LOGIX_REAL, "stub": LOGIX_STUB,
                "assumptions": ["vendor / product-type NAMES come from the library's own tables (naming dictionary only); ids, "
                                "widths, order and formatting are the reference's",
                                "for-all-values is seeded sampling with boundary bias, not enumeration"]}
PLANS["C09"]["parts"].append(("generic", "gen", 5000, 150000))
PLANS["C09"]["parts"].append(("generic", "directed", None, None))
PLANS["C09"]["rule"] += ("; directed value sweeps through generic messages against a wildcard object: every class/instance/attribute "
                         "value around the 8/16/32-bit format boundaries, every 97th (quick) or every (thorough) instance id "
                         "0..0x10100, every 251st/7th class and attribute id; and element indices around 255/256/65535/65536 of a "
                         "70000-element array")
PLANS["C09"]["parts"].append(("lifecycle", "gen", 3000, 80000))
PLANS["C11"]["parts"].append(("generic", "gen", 4000, 100000))
PLANS["C11"]["parts"].append(("lifecycle", "gen", 6000, 150000))
PLANS["C17"]["parts"].append(("lifecycle", "gen", 3000, 80000))

PLANS["C13"] = {
    "level": "fault_enumeration",
    "parts": [("replyfault", "directed", None, None), ("replyfault", "gen", 30000, 600000)],
    "budget_s": {"quick": 150, "thorough": 1500},
    "rule": ("scenario = request kind (generic connected/UCMM/Unconnected Send, read, fragmented read, write, fragmented write, "
             "read-modify-write, multi-service read/write, symbol-list page, template read, template attributes, register session, "
             "list identity, identity via Unconnected Send) x which reply of the operation x device fault; directed: every general "
             "status 0..255 (x extended-status shapes for selected codes; all in thorough) on first/last reply of every kind, "
             "header-only encapsulation errors, per-service status vectors and lying counts in multi-service replies, truncation "
             "at every byte 0..79 (0..139 thorough) with and without fixed-up length; random: status/ext, truncation, 1-8 bit "
             "flips, garbage. distinct = distinct (kind, fault type, outcome, status or cut class)"),
    "real": LOGIX_REAL, "stub": LOGIX_STUB + ["reply-fault injector in the simulated device"],
    "assumptions": ["status 6 is success-and-continue for Read Tag Fragmented, Get Instance Attribute List and template reads; "
                    "must-fail for plain Read/Write Tag, RMW, generic services outside the library's MULTI_PACKET_SERVICES; not "
                    "judged for the remaining members of that list (DESIGN 6 C13)",
                    "status names come from the library's SERVICE_STATUS/EXTEND_CODES tables (naming dictionary only)",
                    "for corrupted frames that are no longer well-formed only robustness (library exception, termination, "
                    "never-success-when-too-short) is demanded"],
}

PLANS["C18"] = {
    "level": "exploration",
    "parts": [("slc", "directed", None, None), ("slc", "gen", 15000, 300000)],
    "budget_s": {"quick": 90, "thorough": 900},
    "rule": ("scenario = generated SLC data table (O0, I1, S2, B3, T4, C5, N7, F8 + extra N/B/F/L/T/C files up to number 255) + "
             "call list of reads/writes over addresses drawn from the documented grammar (word, /bit, Bf/n, {count}, T/C "
             "sub-elements on reads, I/O slot.word, upper/lower case) and planted out-of-range / unsupported addresses; directed: "
             "every Bf/n bit number (all 0..4095 in thorough, every 7th + boundaries in quick) and every element 0..255 x bit of "
             "full N files incl. file 255, read and write. distinct = distinct (call kind, outcome, address forms, file types)"),
    "real": ["pycomm3.socket_.Socket", "pycomm3.CIPDriver", "pycomm3.SLCDriver", "pycomm3.cip.pccc codecs", "packets"],
    "stub": ["socket module (SimNet)", "os.urandom (seeded)", "EtherNet/IP device + connection manager + SLC controller "
             "(reference models, no pycomm3 import)"],
    "assumptions": ["PCCC commands are parsed per 1770-RM516 incl. R-PCCC-FF (address byte 0xFF = two-byte address follows) "
                    "and R-PCCC-SIZE (masked write carries exactly `size` data bytes)",
                    "I/O files are addressed logical-by-slot with a per-run number of words per slot",
                    "writes to timer/counter sub-elements and bit forms of float files are not generated (statement covers reads)"],
}
PLANS["C11"]["parts"].append(("slc", "gen", 2000, 50000))
PLANS["C17"]["parts"].append(("slc", "gen", 2000, 50000))


def plan_for(prop, tier):
    p = PLANS.get(prop)
    if p is None:
        return None
    q = dict(p)
    q["budget_s"] = p["budget_s"][tier]
    return q


def build_tasks(plan, prop, tier, seed, budget_s):
    """budget_s bounds the whole batch: every task stops at the same wall-clock deadline (tasks that start after
    it return at once), so code that makes every run crawl to its step budget still yields a verdict in time"""
    import time
    tasks = []
    deadline = time.time() + budget_s
    for (eng_name, kind, qn, tn) in plan["parts"]:
        eng = runner.engine(eng_name)
        takes_prop = getattr(eng, "GEN_TAKES_PROP", False)
        if kind == "directed":
            scs = eng.directed(tier, prop) if takes_prop else eng.directed(tier)
            per = max(1, (len(scs) + 31) // 32)
            for i in range(0, len(scs), per):
                tasks.append({"engine": eng_name, "prop": prop, "tier": tier, "kind": "list",
                              "scenarios": scs[i:i + per], "det_every": 97, "budget_s": budget_s, "deadline": deadline,
                              "gen_takes_prop": takes_prop, "watchdog_s": max(1800, int(budget_s * 2))})
        else:
            n = qn if tier == "quick" else tn
            seeds = [derive_seed(seed, eng_name, prop, i) % (2**48) for i in range(n)]
            per = max(1, min((n + 63) // 64, 1000))       # small tasks: a stuck one is noticed, the pool stays busy
            for i in range(0, n, per):
                tasks.append({"engine": eng_name, "prop": prop, "tier": tier, "kind": "gen",
                              "seeds": seeds[i:i + per], "det_every": 53, "budget_s": budget_s, "deadline": deadline,
                              "gen_takes_prop": takes_prop, "watchdog_s": max(1800, int(budget_s * 2))})
    return tasks
