"""Reference EtherNet/IP devices: encapsulation endpoint, UCMM, connection manager,
class-3 connected messaging, chassis routing, identity and scripted generic objects.

No pycomm3 import.  The devices *behave* (answer like a device would) and *log*
(everything they parsed); monitors record hits for what only a device can see
(frame well-formedness in context, session/connection state, sizes, sequence counts).
"""
import struct

from .wire import (WireError, parse_encap_header, build_encap, parse_cpf, build_cpf,
                   parse_mr_request, build_mr_reply, parse_padded_epath, MRRequest,
                   ST_OK, ST_PATH_SEG, ST_PATH_DEST, ST_SVC_UNSUP, ST_CONN_FAIL, ST_RESOURCE,
                   ST_NOT_ENOUGH, ST_TOO_MUCH, ST_OBJ_NOT_EXIST, ST_INVALID_PARAM, ST_PARTIAL)

ENC_OK = 0
ENC_BAD_CMD = 0x01
ENC_NO_MEM = 0x02
ENC_BAD_DATA = 0x03
ENC_BAD_SESSION = 0x64
ENC_BAD_LEN = 0x65
ENC_BAD_VERSION = 0x69

# encapsulation commands an originator may send: NOP, ListServices, ListIdentity, ListInterfaces, Register/UnRegister
# Session, SendRRData, SendUnitData (the library uses five of them today; the others are legal and answered too)
CLIENT_CMDS = (0x00, 0x04, 0x63, 0x64, 0x65, 0x66, 0x6F, 0x70)


class Hits:
    """violation candidates recorded by monitors and oracles during a run"""

    def __init__(self, sim):
        self.sim = sim
        self.items = []
        self.cur_op = None

    def hit(self, prop, oracle, msg, rules=(), **features):
        rec = {"property": prop, "oracle": oracle, "msg": msg, "op": self.cur_op,
               "rules": sorted(rules), "features": {k: features[k] for k in sorted(features)}}
        self.items.append(rec)
        self.sim.log("hit", prop + ":" + oracle, msg)


class ConnRecord:
    __slots__ = ("o2t_id", "t2o_id", "triple", "o2t_size", "t2o_size", "target", "route",
                 "session", "tcp", "last_seq", "cached", "last_us", "timeout_us", "large",
                 "open", "seqs", "opened_op", "last_svc")


class World:
    def __init__(self, sim, net, choices=None):
        self.sim = sim
        self.net = net
        self.hits = Hits(sim)
        self.choices = dict(choices or {})
        self.chassis = []
        self.by_ip = {}            # ip -> entry Module
        self.expect = None         # out-of-band: what the harness is doing right now
        self.oplog = []            # per-op log of parsed services (reset by harness)
        self.frames_in = 0
        self._hrng = sim.stream("dev/handles")
        self._small_handle = 0

    def new_handle(self):
        pol = self.choices.get("handles", "random32")
        if pol == "small":
            self._small_handle += 1
            return self._small_handle
        r = self._hrng
        c = r.random()
        if c < 0.25:
            return r.randrange(0x80000000, 0x100000000)      # high bit set
        if c < 0.35:
            return r.choice((1, 0xFF, 0x100, 0xFFFF, 0x10000, 0xFFFFFFFF, 0x7FFFFFFF))
        return r.randrange(1, 0x100000000)

    def add_chassis(self, slots=1):
        c = Chassis(self, slots)
        self.chassis.append(c)
        return c

    def expose(self, module, ip, port=44818, names=(), udp_net=None):
        module.ip = ip
        self.by_ip[ip] = module
        self.net.hosts[(ip, port)] = module
        for n in names:
            self.net.dns[n] = ip
        if udp_net is not None:
            self.net.udp_nets.setdefault(None if udp_net == "unbound" else udp_net, []).append(module)

    def log(self, **rec):
        rec["op"] = self.hits.cur_op
        self.oplog.append(rec)
        return rec


class Chassis:
    def __init__(self, world, slots):
        self.world = world
        self.slots = [None] * slots

    def put(self, slot, module):
        self.slots[slot] = module
        module.chassis = self
        module.slot = slot
        return module


DEFAULT_IDENTITY = dict(vendor=1, product_type=14, product_code=55, rev_major=32, rev_minor=11,
                        status=0x3060, serial=0x00C0FFEE, product_name="1756-L83E/B", state=3)


def encode_identity_attrs(idn):
    name = idn["product_name"].encode("latin-1")
    return (struct.pack("<HHHBBHI", idn["vendor"], idn["product_type"], idn["product_code"],
                        idn["rev_major"], idn["rev_minor"], idn["status"], idn["serial"])
            + bytes([len(name)]) + name)


class Module:
    """a module in a chassis; may be Ethernet-facing (has .ip and accepts TCP)"""

    kind = "module"

    def __init__(self, world, identity=None):
        self.world = world
        self.sim = world.sim
        self.identity = dict(DEFAULT_IDENTITY)
        if identity:
            self.identity.update(identity)
        self.chassis = None
        self.slot = None
        self.ip = None
        self.enet_peers = None      # for port-2 routing: dict ip -> Module (default: world.by_ip)
        self.generic = {}           # (class, instance) -> GenericObject
        # encapsulation / connection-manager state (Ethernet-facing modules)
        self.sessions = {}          # handle -> EipEndpoint
        self.connections = {}       # o2t id -> ConnRecord (open ones)
        self.closed_connections = []
        self.policy = {}            # large_fo: ok|refuse ; std_fo: ok|refuse ; fclose: ok|refuse
                                    # session: ok|refuse ; max_connections
        self.inject = []            # scripted service statuses (see take_injection)
        self.fo_log = []

    # ---- TCP accept -----------------------------------------------------
    def accept(self, conn):
        return EipEndpoint(self, conn)

    # ---- UDP ------------------------------------------------------------
    def on_udp(self, data, addr):
        if len(data) < 24:
            return None
        cmd, length, session, status, ctx, opts = parse_encap_header(data)
        if cmd != 0x63:
            return None
        self.world.log(kind="udp_list_identity", dev=self.ip)
        frame = build_encap(0x63, 0, 0, ctx, self.list_identity_body())
        hook = getattr(self, "reply_hook", None)
        if hook is not None:
            frame = hook(frame, {"kind": "list_identity", "udp": True, "service": None})
        return frame

    def list_identity_body(self):
        idn = self.identity
        ipb = bytes(int(x) for x in (self.ip or "0.0.0.0").split("."))
        sock = struct.pack(">hH", 2, 44818) + ipb + bytes(8)
        item = struct.pack("<H", 1) + sock + encode_identity_attrs(idn) + bytes([idn["state"]])
        return struct.pack("<HHH", 1, 0x000C, len(item)) + item

    # ---- routing --------------------------------------------------------
    def route(self, hops):
        """follow port/link hops from this module; -> (module|None, error_str|None)"""
        cur = self
        for port, link in hops:
            if port == 1:
                if not isinstance(link, int) or cur.chassis is None:
                    return None, "bad backplane link"
                if link >= len(cur.chassis.slots) or cur.chassis.slots[link] is None:
                    return None, f"empty slot {link}"
                cur = cur.chassis.slots[link]
            elif port == 2:
                if isinstance(link, int):
                    return None, "enet link must be an address"
                ip = link.decode("ascii", "replace")
                peers = cur.enet_peers if cur.enet_peers is not None else cur.world.by_ip
                if cur.ip is None and cur.enet_peers is None:
                    return None, "module has no ethernet port"
                nxt = peers.get(ip)
                if nxt is None:
                    return None, f"no device at {ip}"
                cur = nxt
            else:
                return None, f"no port {port}"
        return cur, None

    # ---- message router -------------------------------------------------
    def take_injection(self, where, **match):
        """scripted fault: first matching, not yet consumed injection (status injection
        for C03/C13).  match keys are compared when present in the injection."""
        for inj in self.inject:
            if inj.get("used") or inj.get("where") != where:
                continue
            ok = True
            for k, v in inj.get("match", {}).items():
                if match.get(k) != v:
                    ok = False
                    break
            if not ok:
                continue
            skip = inj.get("skip", 0)
            if skip > 0:
                inj["skip"] = skip - 1
                continue
            if not inj.get("sticky"):
                inj["used"] = True
            inj["fired"] = inj.get("fired", 0) + 1
            self.sim.fired("inject:" + where)
            return inj
        return None

    def mr_dispatch(self, req: MRRequest, ctx):
        """-> message-router reply bytes"""
        world = self.world
        if req.path_error is not None:
            world.hits.hit("C09", "path.wellformed", str(req.path_error), rules=[req.path_error.rule],
                           rule=req.path_error.rule, where=ctx.get("transport", "?"))
            return build_mr_reply(req.service, ST_PATH_SEG)
        path = req.path
        if not path:
            return build_mr_reply(req.service, ST_PATH_DEST)
        return self.handle_request(req, ctx)

    def handle_request(self, req, ctx):
        path = req.path
        cls = inst = attr = None
        if path[0][0] == "logical" and path[0][1] == "class":
            cls = path[0][2]
            if len(path) > 1 and path[1][0] == "logical" and path[1][1] == "instance":
                inst = path[1][2]
                if len(path) > 2 and path[2][0] == "logical" and path[2][1] == "attribute":
                    attr = path[2][2]
        g = self.generic.get((cls, inst)) if cls is not None else None
        if g is None and cls is not None and cls not in (0x01, 0x02, 0x06):
            g = self.generic.get((cls, None)) or self.generic.get((None, None))      # wildcards (value sweeps)
        if g is not None:
            return g.handle(self, req, ctx, cls, inst, attr)
        if cls == 0x01 and inst == 1:
            return self.identity_object(req, ctx, attr)
        if cls == 0x06 and inst == 1:
            return self.connection_manager(req, ctx)
        return self.handle_other(req, ctx, cls, inst, attr)

    def handle_other(self, req, ctx, cls, inst, attr):
        self.world.log(kind="mr", module=self.kind, service=req.service, cls=cls, inst=inst, attr=attr,
                       data=req.data, transport=ctx.get("transport"), status=ST_PATH_DEST)
        return build_mr_reply(req.service, ST_PATH_DEST)

    def identity_object(self, req, ctx, attr):
        inj = self.take_injection("identity")
        self.world.log(kind="mr", module=self.kind, service=req.service, cls=1, inst=1, attr=attr, mobj=self,
                       data=req.data, transport=ctx.get("transport"), route=ctx.get("route"),
                       slot=self.slot, trailing=ctx.get("trailing"))
        if inj is not None:
            return build_mr_reply(req.service, inj["status"], inj.get("data", b""), inj.get("ext", ()))
        if req.service == 0x01:
            return build_mr_reply(req.service, ST_OK, encode_identity_attrs(self.identity))
        return build_mr_reply(req.service, ST_SVC_UNSUP)

    # ---- connection manager -------------------------------------------
    def connection_manager(self, req, ctx):
        if ctx.get("transport") == "connected":
            return build_mr_reply(req.service, ST_SVC_UNSUP)
        if req.service in (0x54, 0x5B):
            return self.forward_open(req, ctx)
        if req.service == 0x4E:
            return self.forward_close(req, ctx)
        if req.service == 0x52:
            return self.unconnected_send(req, ctx)
        return build_mr_reply(req.service, ST_SVC_UNSUP)

    def forward_open(self, req, ctx):
        world = self.world
        large = req.service == 0x5B
        d = req.data
        fixed = 36 + (4 if large else 0)
        log = world.log(kind="forward_open", large=large, ok=False)
        self.fo_log.append(log)
        if len(d) < fixed:
            world.hits.hit("C11", "fo.format", f"forward open data too short ({len(d)} bytes)",
                           rules=["R-FO-LEN"], what="short")
            return build_mr_reply(req.service, ST_NOT_ENOUGH)
        prio, ticks, o2t_id, t2o_id, csn, vid, vsn, mult = struct.unpack_from("<BBIIHHIB", d, 0)
        off = 22
        if large:
            o2t_rpi, o2t_par, t2o_rpi, t2o_par = struct.unpack_from("<IIII", d, off)
            off += 16
            o2t_size, t2o_size = o2t_par & 0xFFFF, t2o_par & 0xFFFF
            o2t_flags, t2o_flags = o2t_par >> 16, t2o_par >> 16
        else:
            o2t_rpi, o2t_par, t2o_rpi, t2o_par = struct.unpack_from("<IHIH", d, off)
            off += 12
            o2t_size, t2o_size = o2t_par & 0x1FF, t2o_par & 0x1FF
            o2t_flags, t2o_flags = o2t_par & 0xFE00, t2o_par & 0xFE00
        trigger = d[off]
        words = d[off + 1]
        off += 2
        pbytes = d[off:off + 2 * words]
        trailing = d[off + 2 * words:]
        log.update(o2t_size=o2t_size, t2o_size=t2o_size, triple=(csn, vid, vsn), t2o_id=t2o_id,
                   trigger=trigger, rpi=(o2t_rpi, t2o_rpi), mult=mult)
        if len(pbytes) != 2 * words or trailing:
            world.hits.hit("C09", "path.wellformed",
                           f"forward open connection path size {words} words does not match the "
                           f"{len(d) - off} bytes present", rules=["R-FO-PATHSIZE"], rule="R-FO-PATHSIZE",
                           where="forward_open")
            return build_mr_reply(req.service, ST_CONN_FAIL, ext=(0x0315,))
        try:
            cpath = parse_padded_epath(pbytes)
        except WireError as e:
            world.hits.hit("C09", "path.wellformed", f"forward open connection path: {e}",
                           rules=[e.rule], rule=e.rule, where="forward_open")
            return build_mr_reply(req.service, ST_CONN_FAIL, ext=(0x0315,))
        hops = [(s[1], s[2]) for s in cpath if s[0] == "port"]
        rest = [s for s in cpath if s[0] != "port"]
        log["route"] = hops
        log["dest"] = rest
        inj = self.take_injection("forward_open", large=large)
        if inj is not None:
            return build_mr_reply(req.service, inj["status"], inj.get("data", b""), inj.get("ext", ()))
        pol = self.policy
        if large and pol.get("large_fo", "ok") != "ok":
            self.sim.fired("large_fo_refused")
            return build_mr_reply(req.service, ST_SVC_UNSUP)
        if not large and pol.get("std_fo", "ok") != "ok":
            self.sim.fired("std_fo_refused")
            return build_mr_reply(req.service, ST_CONN_FAIL, ext=(0x0113,))
        if len(self.connections) >= pol.get("max_connections", 8):
            return build_mr_reply(req.service, ST_CONN_FAIL, ext=(0x0113,))
        target, err = self.route(hops)
        if target is None:
            log["route_error"] = err
            # every scenario connects along a route that exists: a route the chassis cannot follow does not
            # denote the module the driver was pointed at
            world.hits.hit("C09", "path.denotes", f"Forward Open connection path {hops} cannot be followed: {err}",
                           kind="route", rw="fo", unresolved=True)
            return build_mr_reply(req.service, ST_CONN_FAIL, ext=(0x0311,))
        if not (len(rest) == 2 and rest[0][:3] == ("logical", "class", 2)
                and rest[1][:3] == ("logical", "instance", 1)):
            world.hits.hit("C09", "path.denotes", f"Forward Open connection path ends in {rest}, not in the message router "
                           f"(class 2, instance 1)", kind="fo_destination", rw="fo", unresolved=False)
            return build_mr_reply(req.service, ST_CONN_FAIL, ext=(0x0315,))
        if (trigger & 0x0F) != 3 or not (trigger & 0x80):
            return build_mr_reply(req.service, ST_CONN_FAIL, ext=(0x0103,))
        if not large and (o2t_size == 0 or t2o_size == 0):
            return build_mr_reply(req.service, ST_CONN_FAIL, ext=(0x0109,))
        for c in self.connections.values():
            if c.triple == (csn, vid, vsn):
                return build_mr_reply(req.service, ST_CONN_FAIL, ext=(0x0100,))
        rec = ConnRecord()
        rec.o2t_id = world.new_handle()
        while rec.o2t_id in self.connections:
            rec.o2t_id = world.new_handle()
        rec.t2o_id = t2o_id
        rec.triple = (csn, vid, vsn)
        rec.o2t_size, rec.t2o_size = o2t_size, t2o_size
        rec.target = target
        rec.route = hops
        rec.session = ctx.get("session")
        rec.tcp = ctx.get("tcp")
        rec.last_seq = None
        rec.last_svc = None
        rec.cached = None
        rec.last_us = self.sim.now_us
        rec.timeout_us = max(o2t_rpi, 1) * (4 << (mult & 7))
        rec.large = large
        rec.open = True
        rec.seqs = []
        rec.opened_op = world.hits.cur_op
        self.connections[rec.o2t_id] = rec
        log["ok"] = True
        log["o2t_id"] = rec.o2t_id
        self.sim.log("dev", "fo_ok", (self.ip, rec.o2t_id, o2t_size))
        body = struct.pack("<IIHHIIIBB", rec.o2t_id, t2o_id, csn, vid, vsn, o2t_rpi, t2o_rpi, 0, 0)
        return build_mr_reply(req.service, ST_OK, body)

    def forward_close(self, req, ctx):
        world = self.world
        d = req.data
        world.log(kind="forward_close")
        if len(d) < 12:
            return build_mr_reply(req.service, ST_NOT_ENOUGH)
        prio, ticks, csn, vid, vsn, words, reserved = struct.unpack_from("<BBHHIBB", d, 0)
        pbytes = d[12:]
        if len(pbytes) != 2 * words:
            world.hits.hit("C09", "path.wellformed",
                           f"forward close path size {words} words vs {len(pbytes)} bytes",
                           rules=["R-FC-PATHSIZE"], rule="R-FC-PATHSIZE", where="forward_close")
            return build_mr_reply(req.service, ST_CONN_FAIL, ext=(0x0315,))
        try:
            parse_padded_epath(pbytes)
        except WireError as e:
            world.hits.hit("C09", "path.wellformed", f"forward close connection path: {e}",
                           rules=[e.rule], rule=e.rule, where="forward_close")
            return build_mr_reply(req.service, ST_CONN_FAIL, ext=(0x0315,))
        inj = self.take_injection("forward_close")
        if inj is not None:
            return build_mr_reply(req.service, inj["status"], inj.get("data", b""), inj.get("ext", ()))
        if self.policy.get("fclose", "ok") != "ok":
            self.sim.fired("fclose_refused")
            return build_mr_reply(req.service, ST_CONN_FAIL, ext=(0x0107,))
        for k, c in list(self.connections.items()):
            if c.triple == (csn, vid, vsn):
                c.open = False
                del self.connections[k]
                self.closed_connections.append(c)
                self.sim.log("dev", "fc_ok", (self.ip, k))
                body = struct.pack("<HHIBB", csn, vid, vsn, 0, 0)
                return build_mr_reply(req.service, ST_OK, body)
        return build_mr_reply(req.service, ST_CONN_FAIL, ext=(0x0107,))

    def unconnected_send(self, req, ctx):
        world = self.world
        d = req.data
        if len(d) < 4:
            return build_mr_reply(req.service, ST_NOT_ENOUGH)
        prio, ticks, mlen = struct.unpack_from("<BBH", d, 0)
        rec = world.log(kind="unconnected_send", embedded_len=mlen, total=len(d))
        if 4 + mlen > len(d):
            world.hits.hit("C14", "us.wrapper", f"embedded length {mlen} exceeds the request", rules=["R-US-LEN"],
                           what="length")
            return build_mr_reply(req.service, ST_NOT_ENOUGH)
        msg = d[4:4 + mlen]
        i = 4 + mlen
        if mlen % 2:
            if i >= len(d) or d[i] != 0:
                rec["pad"] = "missing"
            else:
                rec["pad"] = "present"
            i += 1
        else:
            rec["pad"] = "n/a"
        if i + 2 > len(d):
            rec["route_error"] = "route path field missing"
            return build_mr_reply(req.service, ST_NOT_ENOUGH)
        words, reserved = d[i], d[i + 1]
        pbytes = d[i + 2:]
        rec.update(route_words=words, reserved=reserved, route_bytes=bytes(pbytes), message=bytes(msg))
        if len(pbytes) != 2 * words:
            rec["route_error"] = f"route size {words} words vs {len(pbytes)} bytes"
            return build_mr_reply(req.service, ST_PATH_SEG)
        try:
            rp = parse_padded_epath(pbytes)
        except WireError as e:
            rec["route_error"] = str(e)
            world.hits.hit("C09", "path.wellformed", f"unconnected send route: {e}", rules=[e.rule],
                           rule=e.rule, where="unconnected_send")
            return build_mr_reply(req.service, ST_PATH_SEG)
        if any(s[0] != "port" for s in rp):
            rec["route_error"] = "non-port segment in route"
            return build_mr_reply(req.service, ST_PATH_SEG)
        hops = [(s[1], s[2]) for s in rp]
        rec["route"] = hops
        target, err = self.route(hops)
        if target is None:
            rec["route_error"] = err
            return build_mr_reply(req.service, ST_CONN_FAIL, ext=(0x0311,))
        try:
            inner = parse_mr_request(msg)
        except WireError as e:
            rec["route_error"] = str(e)
            return build_mr_reply(req.service, ST_NOT_ENOUGH)
        ictx = dict(ctx)
        ictx.update(transport="unconnected_send", route=hops, max_reply=504)
        return target.mr_dispatch(inner, ictx)

    # ---- housekeeping ---------------------------------------------------
    def expire_connections(self):
        now = self.sim.now_us
        for k, c in list(self.connections.items()):
            if now - c.last_us > c.timeout_us:
                c.open = False
                del self.connections[k]
                self.closed_connections.append(c)
                self.sim.fired("target_idle_timeout")


class GenericObject:
    """scripted object for C14: logs what arrives, answers what the scenario scripted"""

    def __init__(self, reply_data=b"", status=0, ext=()):
        self.reply_data = reply_data
        self.status = status
        self.ext = tuple(ext)
        self.replies = None     # optional list of (status, ext, data) consumed in order

    def handle(self, module, req, ctx, cls, inst, attr):
        module.world.log(kind="mr", module=module.kind, generic=True, service=req.service, cls=cls,
                         inst=inst, attr=attr, path=req.path, data=req.data,
                         transport=ctx.get("transport"), route=ctx.get("route"), slot=module.slot,
                         ip=module.ip, mobj=module)
        inj = module.take_injection("generic")
        if inj is not None:
            return build_mr_reply(req.service, inj["status"], b"", inj.get("ext", ()))
        if self.replies:
            st, ext, data = self.replies.pop(0)
            return build_mr_reply(req.service, st, data, ext)
        return build_mr_reply(req.service, self.status, self.reply_data, self.ext)


class EipEndpoint:
    """server side of one TCP connection to an Ethernet-facing module"""

    def __init__(self, module, conn):
        self.module = module
        self.world = module.world
        self.sim = module.sim
        self.conn = conn
        self.session = None
        self.torn = False
        self.reply_faults = None     # E4 hook: callable(frame_bytes, info) -> bytes|None
        self.world.net.listeners.append(self) if self not in self.world.net.listeners else None

    # ---- byte-stream monitor (C11) ---------------------------------------
    def on_client_message_start(self, conn, data):
        # TCP is a byte stream: what counts is the sequence of frames in it (each is checked in on_bytes once it is
        # complete), not how the client spreads them over send() calls - header and body may well go out separately
        return

    def on_client_recv(self, conn):
        if conn is not self.conn:
            return
        if self.conn.c2s and not self.torn and not self.conn.send_faulted:
            self.world.hits.hit("C11", "frame.stream",
                                f"client waits for a reply while {len(self.conn.c2s)} bytes of an incomplete "
                                f"frame are pending at the target", rules=["R-ENC-LEN"], what="incomplete")
            self.torn = True

    def check_emitted(self, data):
        """strict check of one frame of the client's byte stream, in connection context.  A wrong length field shows
        as a frame that never completes (frame.stream, when the client starts waiting or closes) or as a following
        'frame' that starts in the middle of this one's body (command / short / cpf)"""
        hit = lambda what, msg, rules=("R-ENC-HDR",): self.world.hits.hit(
            "C11", "frame.strict", msg, rules=rules, what=what)
        if self.torn:
            return          # a torn frame (send fault) precedes: stream position unknown
        if len(data) < 24:
            hit("short", f"message of {len(data)} bytes is shorter than an encapsulation header")
            return
        cmd, length, session, status, context, options = parse_encap_header(data)
        if len(data) != 24 + length:
            hit("length", f"length field {length} but {len(data) - 24} bytes follow the header (cmd 0x{cmd:02x})",
                ("R-ENC-LEN",))
            return
        if cmd not in CLIENT_CMDS:
            hit("command", f"unexpected command 0x{cmd:04x}")
            return
        if status != 0:
            hit("status", f"non-zero status 0x{status:x} in a request")
        if options != 0:
            hit("options", f"non-zero options 0x{options:x}")
        expected = self.session or 0
        # the session handle field is ignored by a target for NOP and the List* commands (EtherNet/IP spec 2-4)
        if session != expected and cmd not in (0x00, 0x04, 0x63, 0x64):
            hit("session", f"session handle 0x{session:08x} but the target granted 0x{expected:08x} (cmd 0x{cmd:02x})",
                ("R-ENC-SESSION",))
        body = data[24:]
        if cmd == 0x65:
            if length != 4 or body != b"\x01\x00\x00\x00":
                hit("register_body", f"RegisterSession body {body.hex()}")
        elif cmd in (0x66, 0x63, 0x04, 0x64):
            if length != 0:
                hit("body", f"command 0x{cmd:02x} carries {length} body bytes")
        elif cmd == 0x00:
            pass            # NOP may carry any data
        else:
            try:
                iface, tmo, items = parse_cpf(body)
            except WireError as e:
                hit("cpf", f"common packet format: {e}", (e.rule,))
                return
            if iface != 0:
                hit("cpf", f"interface handle {iface}")
            if len(items) != 2:
                hit("cpf", f"{len(items)} items in common packet")
                return
            (at, ad), (dt, dd) = items
            if cmd == 0x6F:
                if at != 0x0000 or len(ad) != 0 or dt != 0x00B2:
                    hit("cpf", f"SendRRData items 0x{at:04x}/{len(ad)} 0x{dt:04x}")
            else:
                if at != 0x00A1 or len(ad) != 4 or dt != 0x00B1:
                    hit("cpf", f"SendUnitData items 0x{at:04x}/{len(ad)} 0x{dt:04x}")
                else:
                    cid = struct.unpack("<I", ad)[0]
                    c = self.module.connections.get(cid)
                    if c is None or c.session is not self:
                        # could be legitimately stale after a target-side timeout: only flag
                        # ids the target never granted to this session
                        granted = any(x.session is self and x.o2t_id == cid
                                      for x in self.module.closed_connections)
                        if not granted:
                            hit("connection_id", f"connection id 0x{cid:08x} was not granted by the target "
                                                 f"on this session", ("R-CONN-ID",))
                    if len(dd) < 2:
                        hit("cpf", "connected data item shorter than a sequence count")

    # ---- frames -----------------------------------------------------------
    def on_bytes(self, conn):
        buf = conn.c2s
        while True:
            if len(buf) < 24:
                return
            length = struct.unpack_from("<H", buf, 2)[0]
            if len(buf) < 24 + length:
                return
            frame = bytes(buf[:24 + length])
            del buf[:24 + length]
            self.sim.charge("frames")
            self.world.frames_in += 1
            self.check_emitted(frame)
            self.handle_frame(frame)

    def on_client_close(self, conn):
        if conn is self.conn and self.conn.c2s and not self.torn and not self.conn.dead and not self.conn.send_faulted:
            self.world.hits.hit("C11", "frame.stream",
                                f"client closed the connection with {len(self.conn.c2s)} bytes of an incomplete frame "
                                f"pending at the target", rules=["R-ENC-LEN"], what="incomplete")
            self.torn = True
        self._drop_session()

    def on_dead(self, conn):
        self._drop_session()

    def _drop_session(self):
        if self.session is not None:
            self.module.sessions.pop(self.session, None)
            self.sim.log("dev", "session_dropped", self.session)
            self.session = None

    def reply(self, frame, info=None):
        hook = getattr(self.module, "reply_hook", None)
        if hook is not None:
            frame = hook(frame, info or {})
            if frame is None:
                return
        self.conn.server_send(frame)

    def handle_frame(self, frame):
        world = self.world
        module = self.module
        module.expire_connections()
        cmd, length, session, status, ctx8, options = parse_encap_header(frame)
        body = frame[24:]
        self.sim.log("dev", "frame", (module.ip, cmd, length))
        world.log(kind="encap", cmd=cmd, session=session, length=length)
        inj = module.take_injection("encap", cmd=cmd)
        if inj is not None:
            self.reply(build_encap(cmd, session, inj["status"], ctx8), {"kind": "encap_error"})
            return
        if cmd == 0x63:
            self.reply(build_encap(0x63, session, 0, ctx8, module.list_identity_body()), {"kind": "list_identity"})
            return
        if cmd == 0x00:
            return          # NOP: no reply
        if cmd == 0x04:
            # ListServices: one item, type 0x100, "Communications" with the CIP-encapsulation capability flag
            item = struct.pack("<HHHH", 0x100, 20, 1, 0x0120) + b"Communications\x00\x00"
            self.reply(build_encap(0x04, session, 0, ctx8, struct.pack("<H", 1) + item), {"kind": "list_services"})
            return
        if cmd == 0x64:
            self.reply(build_encap(0x64, session, 0, ctx8, struct.pack("<H", 0)), {"kind": "list_interfaces"})
            return
        if cmd == 0x65:
            if self.session is not None:
                self.reply(build_encap(cmd, self.session, ENC_BAD_CMD, ctx8, body))
                return
            if len(body) != 4 or body[:2] != b"\x01\x00":
                self.reply(build_encap(cmd, 0, ENC_BAD_VERSION, ctx8, body))
                return
            if module.policy.get("session", "ok") != "ok":
                self.sim.fired("session_refused")
                junk = 0 if self.sim.stream("dev/refuse").random() < 0.5 else world.new_handle()
                self.reply(build_encap(cmd, junk, ENC_NO_MEM, ctx8, body), {"kind": "register"})
                return
            h = world.new_handle()
            while h in module.sessions:
                h = world.new_handle()
            self.session = h
            module.sessions[h] = self
            self.sim.log("dev", "session", h)
            self.reply(build_encap(cmd, h, 0, ctx8, body), {"kind": "register"})
            return
        if cmd == 0x66:
            world.log(kind="unregister", valid=(self.session is not None and session == self.session))
            self._drop_session()
            self.conn.server_close()
            return
        if cmd not in (0x6F, 0x70):
            self.reply(build_encap(cmd, session, ENC_BAD_CMD, ctx8))
            return
        if session == 0 and not getattr(self.conn, "send_faulted", False):
            # handle 0 is what the driver holds before any registration: a session-bound command carrying it was
            # sent without a session, whatever faults may have confused driver and target about later replies
            world.hits.hit("C10", "life.I1", f"command 0x{cmd:02x} sent with session handle 0 (no session was ever "
                           f"registered from the driver's point of view)", invariant="I1", what="session_zero")
        if self.session is None or session != self.session:
            world.hits.hit("C10", "life.I1", f"command 0x{cmd:02x} sent without a registered session "
                           f"(handle 0x{session:08x})", invariant="I1", what="no_session")
            self.reply(build_encap(cmd, session, ENC_BAD_SESSION, ctx8))
            return
        try:
            iface, tmo, items = parse_cpf(body)
            if len(items) != 2:
                raise WireError("R-CPF-ITEMS", "item count")
        except WireError:
            self.reply(build_encap(cmd, session, ENC_BAD_DATA, ctx8))
            return
        (at, ad), (dt, dd) = items
        if cmd == 0x6F:
            if at != 0 or dt != 0x00B2:
                self.reply(build_encap(cmd, session, ENC_BAD_DATA, ctx8))
                return
            try:
                req = parse_mr_request(dd)
            except WireError as e:
                world.hits.hit("C11", "frame.mr", f"unconnected message: {e}", rules=[e.rule], what="mr")
                self.reply(build_encap(cmd, session, ENC_BAD_DATA, ctx8))
                return
            mctx = dict(transport="ucmm", session=self, tcp=self.conn, route=None, max_reply=504)
            rep = module.mr_dispatch(req, mctx)
            out = build_cpf([(0, b""), (0x00B2, rep)], tmo=tmo)
            self.reply(build_encap(cmd, session, 0, ctx8, out),
                       {"kind": "rr", "service": rep[0] & 0x7F if rep else None, "mr_off": 24 + 16})
            return
        # SendUnitData
        if at != 0x00A1 or len(ad) != 4 or dt != 0x00B1 or len(dd) < 2:
            self.reply(build_encap(cmd, session, ENC_BAD_DATA, ctx8))
            return
        cid = struct.unpack("<I", ad)[0]
        c = module.connections.get(cid)
        if c is None or c.session is not self:
            stale = any(x.o2t_id == cid and x.session is self for x in module.closed_connections)
            if not stale:
                world.hits.hit("C10", "life.I1", f"connected data on connection 0x{cid:08x} which is not open "
                               f"on this session", invariant="I1", what="no_connection")
            self.sim.log("dev", "unit_data_dropped", cid)
            return                      # a device stays silent here
        c.last_us = self.sim.now_us
        seq = struct.unpack_from("<H", dd, 0)[0]
        # C04 (a): size of the connected data item vs what was granted
        if len(dd) > c.o2t_size:
            world.hits.hit("C04", "size.request", f"connected data item of {len(dd)} bytes on a connection "
                           f"negotiated for {c.o2t_size}", rules=["R-CONN-SIZE"],
                           over_class=("<=8" if len(dd) - c.o2t_size <= 8 else ">8"), cs=c.o2t_size)
            world.log(kind="oversize_request", size=len(dd), cs=c.o2t_size)
            rep = build_mr_reply(dd[2] if len(dd) > 2 else 0, ST_TOO_MUCH)
            self._send_connected(c, seq, rep, cmd, session, ctx8, tmo, None)
            c.last_seq = seq
            c.cached = rep
            return
        prev = c.last_seq
        c.seqs.append(seq)
        world.log(kind="seq", conn=cid, seq=seq)
        if prev is not None and seq == prev:
            svc = dd[2] if len(dd) > 2 else -1
            world.hits.hit("C17", "seq.adjacent", f"sequence count {seq} repeats the previous message's count on "
                           f"connection 0x{cid:08x} (services 0x{c.last_svc or 0:02x} then 0x{svc:02x})",
                           services=f"0x{c.last_svc or 0:02x}->0x{svc:02x}",
                           phase="wrap" if seq in (0, 1, 65535) else "mid")
            # class-3 duplicate detection: resend the cached reply, do not execute
            self._send_connected(c, seq, c.cached or b"", cmd, session, ctx8, tmo, None)
            return
        try:
            req = parse_mr_request(dd[2:])
        except WireError as e:
            world.hits.hit("C11", "frame.mr", f"connected message: {e}", rules=[e.rule], what="mr")
            rep = build_mr_reply(dd[2] if len(dd) > 2 else 0, ST_PATH_SEG)
            req = None
        if req is not None:
            mctx = dict(transport="connected", session=self, tcp=self.conn, route=c.route, conn=c,
                        max_reply=c.t2o_size - 2)
            rep = c.target.mr_dispatch(req, mctx)
        if len(rep) + 2 > c.t2o_size:
            world.log(kind="oversize_reply", size=len(rep) + 2, cs=c.t2o_size)
        c.last_seq = seq
        c.last_svc = dd[2] if len(dd) > 2 else None
        c.cached = rep
        self._send_connected(c, seq, rep, cmd, session, ctx8, tmo, req)

    def _send_connected(self, c, seq, rep, cmd, session, ctx8, tmo, req):
        out = build_cpf([(0x00A1, struct.pack("<I", c.t2o_id)), (0x00B1, struct.pack("<H", seq) + rep)], tmo=tmo)
        self.reply(build_encap(cmd, session, 0, ctx8, out),
                   {"kind": "unit", "service": rep[0] & 0x7F if rep else None, "mr_off": 24 + 22})
