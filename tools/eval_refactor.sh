#!/bin/bash
# run every quick check against a behaviour-preserving variant of the library (a scratch tree):
# every check has to exit 0 there.  usage: eval_refactor.sh <scratch tree> [props...]
D=$1; shift
PROPS=${@:-C01 C02 C03 C04 C05 C09 C10 C11 C12 C13 C14 C16 C17 C18}
mkdir -p $D/_verif_out
bad=0
for p in $PROPS; do
  out=$(VERIF_REPO=$D VERIF_EVIDENCE_DIR=$D/_verif_out VERIF_REPLAY_DIR=$D/_verif_out PYTHONDONTWRITEBYTECODE=1 \
        timeout 3000 /venv/bin/python /verif/check.py $p --tier quick 2>&1); rc=$?
  echo "$p rc=$rc $(echo "$out" | grep -E "quick:|VIOLATION|HARNESS|KNOWN" | head -4 | cut -c1-260)"
  [ $rc -ne 0 ] && bad=1
done
exit $bad
