#!/venv/bin/python
"""regenerates /verif/MANIFEST.json from the table below (keeps it valid and in one place)"""
import json, os
HERE = os.path.dirname(os.path.dirname(os.path.abspath(__file__)))
TRUST = ("Trusted base: the simulator (SimNet, virtual clock, seeded PRNG streams) and the reference devices written from the "
         "public specifications (CIP Vol 1/2, 1756-PM020, 1770-RM516) without importing pycomm3; seeded sampling, not proof. ")
CHECKS = {
 "C01": ("exploration", "Real LogixDriver.read against a reference Logix controller holding a generated project and memory image; every returned Tag is compared with the reference interpretation of the controller memory (value, type string, name) under target-chosen fragment lengths, pagination, recv chunking, firmware/Micro800/Forward-Open policies.",
         "seeded simulation of driver + reference controller; model-based oracle on every read", "DESIGN.md 6 C01"),
 "C02": ("exploration", "Real LogixDriver.write against the reference controller: whole-memory snapshot before/after each call, byte-exact expectation inside the addressed ranges, nothing changed outside, per-service execution counts at the target (exactly once, fragment tilings, read-modify-write masks) and read-back.",
         "seeded simulation; memory-diff and exactly-once oracles at the reference controller", "DESIGN.md 6 C02"),
 "C03": ("exploration", "Request lists mixing valid requests with planted-invalid ones and controller-injected error statuses; oracle on result shape, order, names, falsy-with-error for failing positions, unaffected neighbours, Tag truthiness contract; n=0 directed.",
         "seeded simulation with planted invalid requests and injected controller statuses", "DESIGN.md 6 C03"),
 "C04": ("exploration", "Target enforces the negotiated connection size on every connected data item, computes the faithful reply of every multi-service read, logs (offset,length) of every fragmented transfer; directed sweep over every tag size in [cs-64,cs+64] and around 2cs/3cs for cs in {500,4000} x name lengths x read/write x single/multi, plus random mixes.",
         "seeded + directed simulation; size and tiling monitors inside the reference target", "DESIGN.md 6 C04"),
 "C05": ("exploration", "open()/get_tag_list() against generated projects (system/module/program symbols, nested UDTs with hidden hosts, strings, predefined ids); tags, data types, programs/tasks compared with the project; twin run under a different pagination/fragmentation policy must give identical tags_json.",
         "seeded simulation; target-chosen pagination and template fragmentation; twin-run differential", "DESIGN.md 6 C05"),
 "C09": ("exploration", "Every request path the library emits in the logix, generic and lifecycle scenarios is parsed by an independent strict padded-EPATH parser inside the target (UCMM, connected, embedded, Forward Open/Close, Unconnected Send routes) and resolved; the resolved object must be the addressed one.",
         "monitor inside the simulated target: strict EPATH parser + denotation check", "DESIGN.md 6 C09"),
 "C10": ("fault_enumeration", "Call histories over open/close/read/write/generic/with-blocks on Logix/CIP/SLC drivers x target policies x every single-fault position (k-th send/receive raises, FIN, RST, stall) of the fault-free twin; invariants I1-I5 at the target and the driver.",
         "deterministic simulation with fault injection at every send/receive position", "DESIGN.md 6 C10"),
 "C11": ("exploration", "Every message handed to Socket.send in every scenario is checked as exactly one encapsulation frame in connection context by a strict independent parser at the byte stream (header, length, session handle granted, CPF items, connection id granted).",
         "byte-stream monitor in the simulated network/endpoint", "DESIGN.md 6 C11"),
 "C12": ("fault_enumeration", "The real Socket class over a simulated byte stream: complete enumeration of the small spaces named in DESIGN 6/C12 (all compositions of the first 8/11 bytes, first chunk 1..30, every fault kind after every byte of small frames) plus seeded random compositions, lengths 0..65511, plus two Socket objects used by two real caller threads under a seeded scheduler that decides after every raw socket call who runs next; oracle = exact bytes / CommError / bounded raw socket calls.",
         "seeded recv/send segmentation and fault injection (FIN/RST/timeout/EPIPE) against the real Socket; seeded thread scheduling (baton passing) for two concurrent callers", "DESIGN.md 6 C12, 13.2"),
 "C13": ("fault_enumeration", "Reply faults injected by the simulated device: every general status 0..255 x extended-status shapes x request kinds, header-only encapsulation errors, truncation at every byte, bit flips, garbage; an independent classifier of the delivered bytes decides what the public call must report.",
         "deterministic simulation with reply-fault injection; independent status classifier", "DESIGN.md 6 C13"),
 "C14": ("exploration", "generic_message and helpers against scripted objects in a routed chassis; the target's message-router log (service, path, data, transport, route, module reached) must equal the request; replies returned verbatim/decoded; get/set time under the virtual clock.",
         "seeded simulation; message-router log oracle at the reference target", "DESIGN.md 6 C14"),
 "C16": ("exploration", "Identities generated per module (known/unknown vendor and type ids, revisions, serials, Latin-1 names, IPs, states); list_identity, get_module_info, get_plc_info and discover (UDP with drop/dup/reorder) compared with the reference rendering.",
         "seeded simulation incl. simulated UDP broadcast with loss/duplication/reordering", "DESIGN.md 6 C16"),
 "C17": ("exploration", "Per-connection sequence-count log at the target, which also behaves as a class-3 target (duplicate count => cached reply, no execution); counter pre-advanced so that the 16-bit wrap falls inside every kind of multi-packet operation; long histories in the thorough tier.",
         "monitor in the simulated target over seeded histories crossing the counter wrap", "DESIGN.md 6 C17"),
 "C18": ("exploration", "Real SLCDriver against a reference SLC data table: PCCC commands parsed per DF1 and compared with the reference decomposition of the address; table diff after writes, read-after-write, counts, invalid addresses emit nothing.",
         "seeded simulation; PCCC command log and data-table diff oracle", "DESIGN.md 6 C18"),
}
NA = [
 ("C06", "round-trip of T.decode(T.encode(v)) is a pure function of (type, value): nothing is scheduled, timed, sent, shared or faulted, so a simulator owns nothing in it (DESIGN.md 2)"),
 ("C07", "byte-for-byte conformance of encode/decode is a pure function; it needs a differential against a reference codec over all values, not schedules or faults (DESIGN.md 2)"),
 ("C08", "exception discipline of encode/decode on caller-supplied values/buffers is a pure function of the argument; the wire-level counterpart (bad replies) is C13 and is claimed there (DESIGN.md 2)"),
 ("C15", "parse_connection_path/route encoding is a pure string function whose statement distinguishes exception types only visible at function level; no peer, stream, clock, history or fault in it (DESIGN.md 2)"),
 ("C19", "EnumMap lookups and status-text fallbacks are pure finite table lookups (DESIGN.md 2)"),
]
import sys
sys.path.insert(0, HERE)
from simcip import plans
claimed = [p for p in sorted(CHECKS) if p in plans.PLANS]
m = {"version": 1, "setup_cmd": "/venv/bin/python check.py --setup",
     "hooks": {"guard": "PYCOMM3_VERIF",
               "enable": "no source hooks: the harness replaces module attributes pycomm3.socket_.socket, pycomm3.cip_driver.socket, pycomm3.cip_driver.urandom and pycomm3.logix_driver.time at run time (DESIGN.md 3.1)",
               "baseline_off_cmd": "cd /repo && /venv/bin/python -m pytest -ra -q -p no:cacheprovider --timeout=900 --continue-on-collection-errors",
               "source_commits": [], "add_only": True},
     "engines": [{"name": "simcip", "path": "/verif/simcip", "serves_properties": claimed,
                  "kind_free_text": "deterministic single-process simulator: fake socket module, virtual clock, seeded PRNG streams, reference EtherNet/IP devices (encapsulation, connection manager, chassis routing, Logix and SLC controllers), scenario-as-data with structural shrinking and replay files"}],
     "checks": [], "not_applicable": [{"property_id": a, "reason": b} for a, b in NA],
     "notes": "deterministic simulation with fault injection; see DESIGN.md. known_findings.json lists fixed/open findings."}
for p in claimed:
    lvl, text, tech, ref = CHECKS[p]
    m["checks"].append({"property_id": p, "quick_cmd": f"/venv/bin/python check.py {p} --tier quick",
                        "thorough_cmd": f"/venv/bin/python check.py {p} --tier thorough",
                        "evidence_file": f"/verif/evidence/{p}.json",
                        "replay_cmd_template": "/venv/bin/python check.py --replay {path}", "engine": "simcip",
                        "level_claimed": {"category": lvl, "text": text, "design_ref": ref},
                        "level_note": TRUST + "; ".join(plans.PLANS[p].get("assumptions", [])),
                        "technique": tech})
unclaimed = [p for p in CHECKS if p not in plans.PLANS]
for p in unclaimed:
    m["not_applicable"].append({"property_id": p, "reason": "claimed by DESIGN.md but its engine is not built yet in this commit"})
json.dump(m, open(os.path.join(HERE, "MANIFEST.json"), "w"), indent=1)
print("claimed", claimed, "pending", unclaimed)
