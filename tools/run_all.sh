#!/bin/bash
# runs every claimed check (default tier quick) and prints one summary line each
tier=${1:-quick}
cd "$(dirname "$0")/.."
rc_all=0
for p in $(/venv/bin/python -c "import json;print(' '.join(c['property_id'] for c in json.load(open('MANIFEST.json'))['checks']))"); do
  out=$(timeout 7200 /venv/bin/python check.py $p --tier $tier 2>&1); rc=$?
  echo "$out" | grep -E "^(VIOLATION|KNOWN-FINDING|HARNESS)" | head -5
  echo "$out" | tail -1 | cut -c1-220
  echo "   -> rc=$rc"
  [ $rc -ne 0 ] && rc_all=1
done
exit $rc_all
