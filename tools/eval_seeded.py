#!/venv/bin/python
"""Confirms a sub-agent's change and stores it under /verif/seeded/<ID>-<X>/.

  eval_seeded.py C10 A [--also C04,C11]   (reads /tmp/mut/C10/_out/A.patch.diff, A.demo.py, A.notes.md)

Steps, all in scratch copies outside /repo and /verif (removed afterwards):
  1. the patch applies to a clean copy of /repo's working tree
  2. the offline tests still pass with it
  3. the demo passes on the clean copy and fails on the patched copy
  4. the property's quick check (and --also checks) are run against the patched copy
Writes seeded/<ID>-<X>/{patch.diff, demo.py, notes.md, meta.json}.
"""
import json
import os
import shutil
import subprocess
import sys

HERE = os.path.dirname(os.path.abspath(__file__))
VERIF = os.path.dirname(HERE)
sys.path.insert(0, os.path.join(VERIF, "selftest"))
import run_mutants  # noqa: E402


def main():
    prop, x = sys.argv[1], sys.argv[2]
    also = []
    tier = "quick"
    for i, a in enumerate(sys.argv):
        if a == "--also":
            also = [p for p in sys.argv[i + 1].split(",") if p]
        if a == "--tier":
            tier = sys.argv[i + 1]
    src = f"/tmp/mut/{prop}/_out"
    patch = os.path.join(src, f"{x}.patch.diff")
    demo = os.path.join(src, f"{x}.demo.py")
    notes = os.path.join(src, f"{x}.notes.md")
    clean = run_mutants.scratch_copy()
    mut = run_mutants.scratch_copy()
    res = {"property": prop, "variant": x}
    try:
        r = subprocess.run(["patch", "-p1", "-d", mut, "-i", patch], capture_output=True, text=True)
        res["applies"] = r.returncode == 0
        if not res["applies"]:
            print("PATCH DOES NOT APPLY", r.stdout[-300:], r.stderr[-300:])
            return 1
        ok, line = run_mutants.run_tests(mut)
        res["tests_green_with_change"] = ok
        res["tests_line"] = line
        for name, repo in (("clean", clean), ("patched", mut)):
            os.makedirs(os.path.join(repo, "_out"), exist_ok=True)
            # demos may assert that pycomm3 is imported from the sub-agent's worktree: point that at this copy
            txt = open(demo).read().replace(f"/tmp/mut/{prop}", repo)
            open(os.path.join(repo, "_out", f"{x}.demo.py"), "w").write(txt)
            p = subprocess.run(["/venv/bin/python", f"_out/{x}.demo.py"], capture_output=True, text=True, cwd=repo,
                               env=dict(os.environ, PYTHONPATH=repo), timeout=600)
            res[f"demo_{name}_rc"] = p.returncode
            res[f"demo_{name}_tail"] = (p.stdout.strip().splitlines() or [""])[-1][:200]
        confirmed = ok and res["demo_clean_rc"] == 0 and res["demo_patched_rc"] != 0
        res["confirmed"] = confirmed
        det = {}
        for p_ in [prop] + also:
            rc, vio, detail, tail = run_mutants.run_check(p_, mut, tier)
            det[p_] = {"rc": rc, "violations": len(vio), "first": (detail[0].strip() if detail else "")[:300]}
        res["checks"] = det
        res["detected_by"] = [p_ for p_, d in det.items() if d["rc"] == 1 and d["violations"]]
    finally:
        shutil.rmtree(clean, ignore_errors=True)
        shutil.rmtree(mut, ignore_errors=True)
    print(json.dumps(res, indent=1))
    if res.get("confirmed"):
        d = os.path.join(VERIF, "seeded", f"{prop}-{x}")
        os.makedirs(d, exist_ok=True)
        shutil.copy(patch, os.path.join(d, "patch.diff"))
        shutil.copy(demo, os.path.join(d, "demo.py"))
        if os.path.exists(notes):
            shutil.copy(notes, os.path.join(d, "notes.md"))
        meta = {"property": prop, "source": "independent sub-agent given only the property text and a scratch worktree",
                "needs_to_manifest": open(notes).read()[:1500] if os.path.exists(notes) else "",
                "what_i_ran": ["patch -p1 on a scratch copy of /repo", "offline test-suite with the change: " + res["tests_line"],
                               f"demo on clean copy: rc={res['demo_clean_rc']} ({res['demo_clean_tail']})",
                               f"demo on patched copy: rc={res['demo_patched_rc']} ({res['demo_patched_tail']})",
                               f"VERIF_REPO=<patched copy> check.py <prop> --tier {tier}"],
                "checks": res["checks"], "detected_by": res["detected_by"],
                "also_detected_by": [p_ for p_ in res["detected_by"] if p_ != prop]}
        json.dump(meta, open(os.path.join(d, "meta.json"), "w"), indent=1)
        print("stored", d)
    return 0


if __name__ == "__main__":
    sys.exit(main())
