#!/bin/bash
# soak: run every quick check under many VERIF_SEED values; print only what is not clean
cd "$(dirname "$0")/.."
from=${1:-1}; to=${2:-20}
for seed in $(seq $from $to); do
  for p in $(/venv/bin/python -c "import json;print(' '.join(c['property_id'] for c in json.load(open('MANIFEST.json'))['checks']))"); do
    out=$(VERIF_SEED=$seed timeout 3600 /venv/bin/python check.py $p --tier quick 2>&1); rc=$?
    if [ $rc -ne 0 ]; then echo "seed=$seed $p rc=$rc"; echo "$out" | grep -E "^(VIOLATION|HARNESS|  oracle|  [a-z])" | head -12; fi
  done
  echo "seed $seed done"
done
