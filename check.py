#!/venv/bin/python
"""Entry point of the verification machinery (see DESIGN.md 11).

  check.py <ID> --tier quick|thorough      decide one property on /repo's working tree
  check.py --replay <file>                 re-run a replay file in this (fresh) process
  check.py --setup                         offline self-check of the framework
  check.py --determinism [N]               digest self-test (same seed twice + fresh interpreter)

Exit 0: property held on everything explored (KNOWN-FINDING lines allowed)
Exit 1: at least one `VIOLATION property=<id> replay=<path>` line
Exit 2: harness error (determinism mismatch, worker death, missing seam ...)
"""
import argparse
import json
import os
import subprocess
import sys
import time

HERE = os.path.dirname(os.path.abspath(__file__))
sys.path.insert(0, HERE)
REPO = os.environ.get("VERIF_REPO", "/repo")
sys.path.insert(0, REPO)
sys.dont_write_bytecode = True
if os.environ.get("PYTHONHASHSEED") is None:
    # fixed hash seed in every process of a check (belt and braces; nothing should depend on it)
    os.environ["PYTHONHASHSEED"] = "0"
    os.execv(sys.executable, [sys.executable] + sys.argv)

from simcip.kernel import derive_seed, HarnessError  # noqa: E402
from simcip import runner, plans, findings, evidence  # noqa: E402


def cmd_check(prop, tier, seed):
    t0 = time.time()
    plan = plans.plan_for(prop, tier)
    if plan is None:
        print(f"property {prop} is not claimed by this machinery (see MANIFEST.json not_applicable)")
        return 2
    budget = float(os.environ.get("VERIF_BUDGET_S", plan["budget_s"]))
    tasks = plans.build_tasks(plan, prop, tier, seed, budget)
    results = runner.run_tasks(tasks, timeout_s=budget * 3 + 300)
    tot = runner.merge(results)
    known = findings.load()
    violations = []
    known_lines = []
    seen = set()
    for h in tot["hits"]:
        k = runner.sig_key(h["sig"])
        if k in seen:
            continue
        seen.add(k)
        entry = findings.match(known, h["sig"])
        if entry is not None:
            known_lines.append(f"KNOWN-FINDING: property={prop} {entry['what']}")
            continue
        violations.append(h)
    rc = 0
    vio_out = []
    for h in violations[:8]:
        sc = runner.unjson(h["scenario"])
        k = runner.sig_key(h["sig"])
        small, nruns = runner.minimise(sc, k, max_runs=plan.get("shrink_runs", 300),
                                       max_s=plan.get("shrink_s", 30))
        path = runner.write_replay(prop, h["sig"], h["hit"], small, sc, sc.get("seed", 0), nruns)
        print(f"VIOLATION property={prop} replay={path}")
        print(f"  oracle={h['sig']['oracle']} features={json.dumps(h['sig']['features'], sort_keys=True)}")
        print(f"  {h['hit']['msg']}")
        vio_out.append({"signature": h["sig"], "replay": path, "msg": h["hit"]["msg"],
                        "violating_hits_in_this_run": tot["sig_counts"].get(k, 1)})
        rc = 1
    if len(violations) > 8:
        print(f"  ... and {len(violations) - 8} further distinct violation signatures not minimised:")
        for h in violations[8:40]:
            print(f"  - {h['sig']['oracle']} {json.dumps(h['sig']['features'], sort_keys=True)} :: {h['hit']['msg'][:160]}")
    for line in sorted(set(known_lines)):
        print(line)
    if violations:
        print(f"  violating hits in this run: {sum(tot['sig_counts'].get(runner.sig_key(h['sig']), 1) for h in violations)} "
              f"over {len(violations)} distinct signature(s)")
    wall = time.time() - t0
    ev_path = evidence.write(prop, tier, seed, plan, tot, wall, len(violations), vio_out,
                             sorted(set(known_lines)))
    if tot["errors"]:
        print(f"HARNESS-ERROR: {len(tot['errors'])} run(s) raised inside the machinery; first:\n"
              f"{tot['errors'][0]}", file=sys.stderr)
        if rc != 1:
            return 2
        # violations were found and written as replay files (each re-runs in a fresh process): they stand
        print("NOTE: the violations above stand; the runs that raised inside the machinery were not judged")
    if tot["det_mismatch"]:
        # the same scenario gave two different event logs in one process.  With violations on the table the
        # likeliest cause is state the code under test keeps across runs (class-level or module-level data):
        # the violations stand (each replay file is re-run in a fresh process by --replay); without any
        # violation it is a problem of the machinery and the run is not believed.
        if rc == 1:
            print(f"NOTE: {len(tot['det_mismatch'])} of {tot['det_checked']} double runs differed - the code under test "
                  f"appears to keep state across runs in one process")
        else:
            print(f"HARNESS-ERROR: {len(tot['det_mismatch'])} determinism mismatch(es)", file=sys.stderr)
            return 2
    if tot["n"] == 0 or tot["evals"] == 0:
        print("HARNESS-ERROR: nothing was evaluated", file=sys.stderr)
        return 2
    print(f"{prop} {tier}: runs={tot['n']} oracle_evals={tot['evals']} distinct_shapes={len(tot['shapes'])} "
          f"violations={len(violations)} known={len(set(known_lines))} det_checked={tot['det_checked']} "
          f"wall={wall:.1f}s evidence={ev_path}")
    return rc


def cmd_replay(path):
    try:
        rc, text = runner.replay(path)
    except HarnessError as e:
        print(f"HARNESS-ERROR: {e}", file=sys.stderr)
        return 2
    print(text)
    return rc


def cmd_determinism(n):
    """N seeds per engine: twice in-process, once in a fresh interpreter with another hash seed"""
    import simcip.selfcheck as sc
    return sc.determinism(n)


def cmd_setup():
    import simcip.selfcheck as sc
    return sc.setup()


def main():
    ap = argparse.ArgumentParser()
    ap.add_argument("prop", nargs="?")
    ap.add_argument("--tier", default=os.environ.get("VERIF_TIER", "quick"), choices=("quick", "thorough"))
    ap.add_argument("--replay")
    ap.add_argument("--setup", action="store_true")
    ap.add_argument("--determinism", nargs="?", const=40, type=int)
    ap.add_argument("--digests", help=argparse.SUPPRESS)
    a = ap.parse_args()
    seed = int(os.environ.get("VERIF_SEED", "20261002"))
    try:
        if a.replay:
            return cmd_replay(a.replay)
        if a.setup:
            return cmd_setup()
        if a.digests:
            import simcip.selfcheck as sc
            return sc.print_digests(int(a.digests))
        if a.determinism is not None:
            return cmd_determinism(a.determinism)
        if not a.prop:
            ap.error("property id required")
        print(f"VERIF_SEED={seed} tier={a.tier} repo={REPO}")
        return cmd_check(a.prop, a.tier, seed)
    except HarnessError as e:
        print(f"HARNESS-ERROR: {e}", file=sys.stderr)
        return 2


if __name__ == "__main__":
    sys.exit(main())
