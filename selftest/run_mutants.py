#!/venv/bin/python
"""Sensitivity self-test: each mutant breaks one claimed property while the 368 baseline tests
stay green.  For every mutant: copy /repo's working tree to a scratch dir (outside /repo and
/verif), apply the edit, optionally run the offline tests, run the property's check with
VERIF_REPO=<scratch> and expect `VIOLATION property=<id>`; remove the scratch copy.

  run_mutants.py                 all built-in mutants (selftest/mutants.py), quick tier
  run_mutants.py -k C10          only mutants whose id/property contains C10
  run_mutants.py --seeded        the sub-agent changes kept under /verif/seeded/<id>/patch.diff
  run_mutants.py --tests         also run the offline test-suite on each mutant (slower)
Not part of the registered checks.  Exit 0 iff every mutant was detected.
"""
import argparse
import json
import os
import shutil
import subprocess
import sys
import tempfile

HERE = os.path.dirname(os.path.abspath(__file__))
VERIF = os.path.dirname(HERE)
sys.path.insert(0, HERE)


def scratch_copy():
    d = tempfile.mkdtemp(prefix="pycomm3-mut-")
    subprocess.run(["rsync", "-a", "--exclude", ".git", "--exclude", "__pycache__", "/repo/", d + "/"], check=True)
    return d


def run_check(prop, repo, tier="quick", extra_env=None):
    out_dir = os.path.join(repo, "_verif_out")
    os.makedirs(out_dir, exist_ok=True)
    env = dict(os.environ, VERIF_REPO=repo, PYTHONDONTWRITEBYTECODE="1", VERIF_EVIDENCE_DIR=out_dir, VERIF_REPLAY_DIR=out_dir)
    env.pop("PYTHONHASHSEED", None)
    if extra_env:
        env.update(extra_env)
    p = subprocess.run(["/venv/bin/python", os.path.join(VERIF, "check.py"), prop, "--tier", tier],
                       capture_output=True, text=True, env=env, timeout=3600, cwd=VERIF)
    vio = [l for l in p.stdout.splitlines() if l.startswith("VIOLATION property=" + prop)]
    detail = [l for l in p.stdout.splitlines() if l.startswith("  oracle=")]
    margin = [l.strip() for l in p.stdout.splitlines() if l.startswith("  violating hits in this run:")]
    if margin and detail:
        detail[0] = detail[0] + "  [" + margin[0].replace("violating hits in this run: ", "hits ") + "]"
    return p.returncode, vio, detail, p.stdout[-600:] + p.stderr[-600:]


def run_tests(repo):
    p = subprocess.run(["/venv/bin/python", "-m", "pytest", "-q", "-p", "no:cacheprovider", "tests/offline"],
                       capture_output=True, text=True, cwd=repo, env=dict(os.environ, PYTHONPATH=repo), timeout=1800)
    return p.returncode == 0, p.stdout.strip().splitlines()[-1] if p.stdout.strip() else p.stderr[-200:]


def main():
    ap = argparse.ArgumentParser()
    ap.add_argument("-k", default="")
    ap.add_argument("--seeded", action="store_true")
    ap.add_argument("--tests", action="store_true")
    ap.add_argument("--tier", default="quick")
    ap.add_argument("--also", default="", help="comma list of further properties to run against each mutant")
    a = ap.parse_args()
    items = []
    if a.seeded:
        root = os.path.join(VERIF, "seeded")
        for d in sorted(os.listdir(root)):
            meta = os.path.join(root, d, "meta.json")
            if os.path.exists(meta):
                m = json.load(open(meta))
                items.append({"id": d, "prop": m["property"], "patch": os.path.join(root, d, "patch.diff"),
                              "also": m.get("also_detected_by", [])})
    else:
        import mutants
        for m in mutants.MUTANTS:
            items.append(m)
    items = [m for m in items if a.k in m["id"] or a.k in m["prop"]]
    missed = []
    for m in items:
        repo = scratch_copy()
        try:
            if "patch" in m:
                r = subprocess.run(["git", "apply", "--unsafe-paths", "--directory", repo, m["patch"]], capture_output=True, text=True, cwd="/")
                if r.returncode != 0:
                    r = subprocess.run(["patch", "-p1", "-d", repo, "-i", m["patch"]], capture_output=True, text=True)
                if r.returncode != 0:
                    print(f"{m['id']:28s} {m['prop']}  PATCH DOES NOT APPLY: {r.stderr[-200:]}")
                    missed.append(m["id"])
                    continue
            else:
                path = os.path.join(repo, m["file"])
                s = open(path).read()
                if s.count(m["old"]) != 1:
                    print(f"{m['id']:28s} {m['prop']}  EDIT DOES NOT APPLY ({s.count(m['old'])} matches)")
                    missed.append(m["id"])
                    continue
                open(path, "w").write(s.replace(m["old"], m["new"]))
            tests = ""
            if a.tests:
                ok, line = run_tests(repo)
                tests = f" tests:{'green' if ok else 'RED'}({line[-40:]})"
            props = [m["prop"]] + [p for p in a.also.split(",") if p]
            res = []
            for prop in props:
                rc, vio, detail, tail = run_check(prop, repo, a.tier)
                res.append((prop, rc, len(vio), detail[:1]))
            prop, rc, nv, det = res[0]
            status = "DETECTED" if rc == 1 and nv else ("HARNESS-ERROR" if rc == 2 else "MISSED")
            if status != "DETECTED":
                missed.append(m["id"])
            extra = " ".join(f"{p}:{'hit' if r == 1 else 'rc' + str(r)}" for p, r, n, d in res[1:])
            print(f"{m['id']:28s} {prop}  {status:14s}{tests} {extra} {(det[0].strip()[:230] if det else tail[-150:].strip() if status != 'DETECTED' else '')}")
            sys.stdout.flush()
        finally:
            shutil.rmtree(repo, ignore_errors=True)
    print(f"{len(items) - len(missed)}/{len(items)} detected; missed: {missed}")
    return 1 if missed else 0


if __name__ == "__main__":
    sys.exit(main())
