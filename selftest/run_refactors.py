#!/venv/bin/python
"""False-alarm self-test: behaviour-preserving refactorings of the library (written by independent
sub-agents, each verified by its author with a differential test against the original tree) are kept
as patches under /verif/refactors/<id>/patch.diff.  For each one: copy /repo's working tree to a
scratch directory outside /repo and /verif, apply the patch, run the offline tests and EVERY claimed
property's quick check with VERIF_REPO=<scratch>, expect exit 0 everywhere; remove the scratch copy.

  run_refactors.py            all stored refactorings
  run_refactors.py -k R9      only ids containing R9
  run_refactors.py --store <tree> <id>   take <tree>/_out/patch.diff (+notes.md) as refactoring <id>, then run it
Not part of the registered checks.  Exit 0 iff no check raised an alarm on any refactoring.
"""
import argparse
import json
import os
import shutil
import subprocess
import sys

HERE = os.path.dirname(os.path.abspath(__file__))
VERIF = os.path.dirname(HERE)
sys.path.insert(0, HERE)
import run_mutants  # noqa: E402

ROOT = os.path.join(VERIF, "refactors")


def claimed():
    m = json.load(open(os.path.join(VERIF, "MANIFEST.json")))
    return [c["property_id"] for c in m["checks"]]


def main():
    ap = argparse.ArgumentParser()
    ap.add_argument("-k", default="")
    ap.add_argument("--store", nargs=2, metavar=("TREE", "ID"))
    a = ap.parse_args()
    os.makedirs(ROOT, exist_ok=True)
    if a.store:
        tree, rid = a.store
        d = os.path.join(ROOT, rid)
        os.makedirs(d, exist_ok=True)
        shutil.copy(os.path.join(tree, "_out", "patch.diff"), os.path.join(d, "patch.diff"))
        if os.path.exists(os.path.join(tree, "_out", "notes.md")):
            shutil.copy(os.path.join(tree, "_out", "notes.md"), os.path.join(d, "notes.md"))
        a.k = rid
    bad = []
    stale = []
    for rid in sorted(os.listdir(ROOT)):
        patch = os.path.join(ROOT, rid, "patch.diff")
        if a.k not in rid or not os.path.exists(patch):
            continue
        repo = run_mutants.scratch_copy()
        res = {"id": rid, "checks": {}}
        try:
            r = subprocess.run(["patch", "-p1", "-d", repo, "-i", patch], capture_output=True, text=True)
            if r.returncode != 0:
                # written against an earlier /repo HEAD (a later fix: commit touched the same lines): not an alarm of a
                # check, the stored result.json is the last evaluation that applied
                print(f"{rid}: STALE - patch no longer applies to /repo's tree (last result: "
                      f"{json.load(open(os.path.join(ROOT, rid, 'result.json'))).get('checks') if os.path.exists(os.path.join(ROOT, rid, 'result.json')) else 'none'})")
                stale.append(rid)
                continue
            ok, line = run_mutants.run_tests(repo)
            res["tests"] = line
            for prop in claimed():
                rc, vio, detail, tail = run_mutants.run_check(prop, repo)
                res["checks"][prop] = rc
                if rc != 0:
                    bad.append(f"{rid}/{prop}")
                    print(f"{rid} {prop} rc={rc} {(detail[0].strip() if detail else tail[-300:])[:300]}")
            print(f"{rid}: tests: {line[-40:]} checks: " + " ".join(f"{p}={rc}" for p, rc in res["checks"].items()))
            sys.stdout.flush()
            json.dump(res, open(os.path.join(ROOT, rid, "result.json"), "w"), indent=1)
        finally:
            shutil.rmtree(repo, ignore_errors=True)
    print("alarms on behaviour-preserving refactorings:", bad or "none", "| stale patches:", stale or "none")
    return 1 if bad else 0


if __name__ == "__main__":
    sys.exit(main())
