"""Built-in mutant corpus (one- or two-line edits of the repaired /repo tree).  Each entry:
id, prop (the property whose check must flag it), file, old, new.  Edits are exact-string
replacements that must match exactly once."""

L = "pycomm3/logix_driver.py"
C = "pycomm3/cip_driver.py"
PL = "pycomm3/packets/logix.py"
PU = "pycomm3/packets/util.py"
PB = "pycomm3/packets/base.py"
PE = "pycomm3/packets/ethernetip.py"
PC = "pycomm3/packets/cip.py"
DT = "pycomm3/cip/data_types.py"
CT = "pycomm3/custom_types.py"
S = "pycomm3/socket_.py"
SL = "pycomm3/slc_driver.py"
U = "pycomm3/util.py"
T = "pycomm3/tag.py"

MUTANTS = [
    # ---- C01 ----
    dict(id="C01-frag-offset-prefix", prop="C01", file=L,
         old="                    offset += len(response.value_bytes)\n",
         new="                    offset += len(response.data)\n"),
    dict(id="C01-bit-shift", prop="C01", file=L,
         old="                                bool(result.value & 1 << bit),",
         new="                                bool(result.value & 1 << (bit + 1)),"),
    dict(id="C01-bool-slice", prop="C01", file=L,
         old="                            bools = result.value[bit : bit + bool_elements]",
         new="                            bools = result.value[bit + 1 : bit + 1 + bool_elements]"),
    dict(id="C01-struct-prefix-skip", prop="C01", file=PU,
         old="    stream = BytesIO(data[4:] if is_struct else data[2:])",
         new="    stream = BytesIO(data[2:] if is_struct else data[2:])"),
    # state that leaks between two driver instances in one process (caught by the second-driver scenarios)
    dict(id="C01-shared-udt-cache", prop="C01", file=L,
         old='            "id:udt": {},\n',
         new='            "id:udt": globals().setdefault("_UDT_CACHE", {}),\n'),
    dict(id="C17-shared-sequence", prop="C17", file=C,
         old="        self._sequence: cycle = cycle(65535, start=1)\n",
         new='        self._sequence: cycle = globals().setdefault("_SEQ", cycle(65535, start=1))\n'),
    # ---- C02 ----
    dict(id="C02-setbit-ormask", prop="C02", file=PL,
         old="            self._or_mask |= 1 << bit\n            self._and_mask |= 1 << bit\n",
         new="            self._and_mask |= 1 << bit\n"),
    dict(id="C02-clearbit-andmask", prop="C02", file=PL,
         old="            self._or_mask &= ~(1 << bit)\n            self._and_mask &= ~(1 << bit)\n",
         new="            self._or_mask &= ~(1 << bit)\n"),
    dict(id="C02-dword-bit-mod16", prop="C02", file=PL,
         old="        if self.data_type == \"DWORD\":\n            bit %= 32",
         new="        if self.data_type == \"DWORD\":\n            bit %= 16"),
    dict(id="C02-writefrag-segment-short", prop="C02", file=L,
         old="                request.value[i : i + segment_size]\n",
         new="                request.value[i : i + segment_size - (1 if i else 0)]\n"),
    dict(id="C02-struct-bit-host", prop="C02", file=CT,
         old="                if val:\n                    value[offset] |= 1 << bit",
         new="                if val:\n                    value[offset + 1] |= 1 << bit"),
    dict(id="C02-truncate-elements", prop="C02", file=L,
         old="                    value = value[:value_elements]",
         new="                    value = value[: value_elements - 1] + value[-1:]"),
    # ---- C03 ----
    dict(id="C03-tag-bool-or", prop="C03", file=T,
         old="        return self.value is not None and self.error is None",
         new="        return self.value is not None or self.error is None"),
    dict(id="C03-bitwrite-fanout-first", prop="C03", file=L,
         old="                for req_id in r._request_ids:\n                    write_results[req_id] = result",
         new="                for req_id in r._request_ids[:1]:\n                    write_results[req_id] = result"),
    dict(id="C03-multi-error-none", prop="C03", file=L,
         old="                                req.tag, None, None, req.error or resp.error\n",
         new="                                req.tag, None, None, req.error\n"),
    # ---- C04 ----
    dict(id="C04-fallback-keeps-4000", prop="C04", file=C,
         old="                self._cfg[\"extended forward open\"] = False\n                self._cfg[\"connection_size\"] = 500\n",
         new="                self._cfg[\"extended forward open\"] = False\n"),
    dict(id="C04-read-threshold", prop="C04", file=L,
         old="            if return_size + MULTISERVICE_READ_OVERHEAD > self.connection_size:\n                request = ReadTagFragmentedRequestPacket",
         new="            if return_size > self.connection_size + MULTISERVICE_READ_OVERHEAD:\n                request = ReadTagFragmentedRequestPacket"),
    dict(id="C04-write-segment-plus2", prop="C04", file=L,
         old="            segment_size = self.connection_size - (len(request.message) - len(request.value))",
         new="            segment_size = self.connection_size - (len(request.message) - len(request.value)) + 2"),
    dict(id="C04-single-read-nobuild", prop="C04", file=L,
         old="            request.build_message()\n            return_size = _tag_return_size(parsed_tag) + len(request.message)",
         new="            return_size = _tag_return_size(parsed_tag) + len(request.message)"),
    # ---- C05 ----
    dict(id="C05-next-page-instance", prop="C05", file=L,
         old="            return instance + 1\n",
         new="            return instance\n"),
    dict(id="C05-no-dunder-filter", prop="C05", file=L,
         old="                if (not io_tag and \":\" in name) or name.startswith(\"__\"):",
         new="                if (not io_tag and \":\" in name):"),
    dict(id="C05-dim-shift", prop="C05", file=L,
         old="            >> 13,  # bit 13 & 14, number of array dims",
         new="            >> 12,  # bit 13 & 14, number of array dims"),
    dict(id="C05-template-no-offset", prop="C05", file=L,
         old="                offset += len(response_pkt.data)\n",
         new="                offset += 0\n"),
    dict(id="C05-string-no-sint-test", prop="C05", file=L,
         old="            and data_type[\"internal_tags\"][\"DATA\"][\"data_type_name\"] == \"SINT\"\n",
         new=""),
    # ---- C09 ----
    dict(id="C09-logical-pad-inverted", prop="C09", file=DT,
         old="        if padded and (len(_segment) + len(_value)) % 2:",
         new="        if padded and not (len(_segment) + len(_value)) % 2:"),
    dict(id="C09-symbol-no-pad", prop="C09", file=DT,
         old="        if _len % 2:\n            _data += b\"\\x00\"\n        return USINT.encode(_segment) + USINT.encode(_len) + _data",
         new="        return USINT.encode(_segment) + USINT.encode(_len) + _data"),
    dict(id="C09-epath-wordcount-up", prop="C09", file=DT,
         old="                _len = USINT.encode(len(path) // 2)",
         new="                _len = USINT.encode((len(path) + 2) // 2)"),
    # ---- C10 ----
    dict(id="C10-close-no-fclose", prop="C10", file=C,
         old="            if self._target_is_connected:\n                self._forward_close()\n",
         new="            if self._target_is_connected:\n                pass\n"),
    dict(id="C10-close-keeps-opened", prop="C10", file=C,
         old="        self._session = 0\n        self._connection_opened = False\n\n        if errs:",
         new="        self._session = 0\n\n        if errs:\n            raise CommError(\" - \".join(str(e) for e in errs))\n        self._connection_opened = False\n\n        if errs:"),
    dict(id="C10-standard-fo-first", prop="C10", file=C,
         old="            \"extended forward open\": True,",
         new="            \"extended forward open\": False,"),
    dict(id="C10-no-session-check", prop="C10", file=C,
         old="            if self._register_session() is None:\n                self.__log.error(\"Session not registered\")\n                # without a session nothing may be sent: drop the socket so that a later open() starts over\n                self._sock.close()\n                self._sock = None\n                self._connection_opened = False\n                return False",
         new="            if self._register_session() is None:\n                self.__log.error(\"Session not registered\")\n                return False"),
    dict(id="C10-close-keeps-target-connected", prop="C10", file=C,
         old="        self._sock = None\n        self._target_is_connected = False\n        self._session = 0",
         new="        self._sock = None\n        self._session = 0"),
    dict(id="C10-vsn-not-redrawn", prop="C10", file=C,
         old="            self._cfg[\"cid\"] = urandom(4)\n            self._cfg[\"vsn\"] = urandom(4)\n",
         new="            self._cfg[\"cid\"] = urandom(4)\n"),
    # ---- C11 ----
    dict(id="C11-header-length-plus1", prop="C11", file=PB,
         old="            self._encap_command, len(common), session_id, context, option",
         new="            self._encap_command, len(common) + 1, session_id, context, option"),
    dict(id="C11-unregister-session0", prop="C11", file=C,
         old="        request = UnRegisterSessionRequestPacket()\n        self.send(request)\n        self._session = None",
         new="        request = UnRegisterSessionRequestPacket()\n        self._session = 0\n        self.send(request)\n        self._session = None"),
    dict(id="C11-item-length-odd", prop="C11", file=PB,
         old="                UINT.encode(len(message)),\n                message,",
         new="                UINT.encode(len(message) + len(message) % 2),\n                message,"),
    dict(id="C11-own-cid", prop="C11", file=C,
         old="                \"target_cid\": self._target_cid,",
         new="                \"target_cid\": self._cfg[\"cid\"] if self._target_cid else self._target_cid,"),
    # ---- C12 ----
    dict(id="C12-recv-le", prop="C12", file=S,
         old="            while len(data) - HEADER_SIZE < data_len:",
         new="            while len(data) - HEADER_SIZE < data_len - 1:"),
    dict(id="C12-send-total", prop="C12", file=S,
         old="                total_sent += sent",
         new="                total_sent = max(total_sent, sent) if total_sent else sent"),
    dict(id="C12-no-eof-check", prop="C12", file=S,
         old="        if not chunk:\n            raise CommError(\"socket connection broken, connection closed by peer\")\n",
         new=""),
    dict(id="C12-send-zero-break", prop="C12", file=S,
         old="                if sent == 0:\n                    raise CommError(\"socket connection broken.\")",
         new="                if sent == 0:\n                    break"),
    # ---- C13 ----
    dict(id="C13-status-offset", prop="C13", file=PE,
         old="            self.service_status = USINT.decode(self.raw[48:49])",
         new="            self.service_status = USINT.decode(self.raw[47:48])"),
    dict(id="C13-six-valid-everywhere", prop="C13", file=PE,
         old="            self.service_status == INSUFFICIENT_PACKETS\n            and self.service in MULTI_PACKET_SERVICES\n",
         new="            self.service_status == INSUFFICIENT_PACKETS\n"),
    dict(id="C13-status-text-nocode", prop="C13", file=PU,
         old="    return SERVICE_STATUS.get(status, f\"Unknown Error ({status:0>2x})\")",
         new="    return SERVICE_STATUS.get(status, \"Unknown Error\")"),
    dict(id="C13-rr-status-ignored", prop="C13", file=PE,
         old="        return all((super().is_valid(), self.service_status == SUCCESS))",
         new="        return all((super().is_valid(), self.service_status is not None))"),
    dict(id="C13-slc-sts-0x10-ok", prop="C13", file=SL,
         old="        if _status_code == SUCCESS:\n            return None",
         new="        if _status_code in (SUCCESS, 0x10):\n            return None"),
    # ---- C14 ----
    dict(id="C14-us-pad-inverted", prop="C14", file=PU,
         old="            b\"\\x00\" if msg_len % 2 else b\"\",",
         new="            b\"\" if msg_len % 2 else b\"\\x00\","),
    dict(id="C14-us-len-with-pad", prop="C14", file=PU,
         old="            UINT.encode(msg_len),\n            message,",
         new="            UINT.encode(msg_len + msg_len % 2),\n            message,"),
    dict(id="C14-connected-no-data", prop="C14", file=PC,
         old="        self._msg += [self.service, req_path, self.request_data]",
         new="        self._msg += [self.service, req_path, self.request_data[:len(self.request_data) - len(self.request_data) % 251]]"),
    dict(id="C14-set-time-ms", prop="C14", file=L,
         old="            microseconds = int(time.time() * SEC_TO_US)",
         new="            microseconds = int(time.time() * 1000)"),
    # ---- C16 ----
    dict(id="C16-serial-x", prop="C16", file=CT,
         old="class ListIdentityObject(",
         new="_UNUSED = None\n\n\nclass ListIdentityObject("),     # placeholder replaced below
    dict(id="C16-unknown-fallback", prop="C16", file=CT,
         old="        values[\"product_type\"] = PRODUCT_TYPES.get(values[\"product_type\"], \"UNKNOWN\")\n        values[\"vendor\"] = VENDORS.get(values[\"vendor\"], \"UNKNOWN\")\n        values[\"serial\"] = f\"{values['serial']:08x}\"\n\n        return values\n\n    @classmethod\n    def _encode",
         new="        values[\"product_type\"] = PRODUCT_TYPES.get(values[\"product_type\"], \"UNKNOWN\")\n        values[\"vendor\"] = VENDORS.get(values[\"vendor\"], \"Unknown\")\n        values[\"serial\"] = f\"{values['serial']:08x}\"\n\n        return values\n\n    @classmethod\n    def _encode"),
    dict(id="C16-listidentity-offset", prop="C16", file=PE,
         old="            self.data = self.raw[26:]",
         new="            self.data = self.raw[24:]"),
    # ---- C17 ----
    dict(id="C17-cycle-restart", prop="C17", file=U,
         old="        if val > stop:\n            val = start",
         new="        if val > stop:\n            val = stop"),
    dict(id="C17-fragment-reuses-count", prop="C17", file=PL,
         old="        new_request = cls(\n            next(sequence),\n            request.tag,\n            request.elements,\n            request.tag_info,\n            request.request_id,\n            request._use_instance_id,\n            offset,\n        )\n        new_request.request_path = request.request_path\n\n        return new_request",
         new="        new_request = cls(\n            request._sequence if offset else next(sequence),\n            request.tag,\n            request.elements,\n            request.tag_info,\n            request.request_id,\n            request._use_instance_id,\n            offset,\n        )\n        new_request.request_path = request.request_path\n\n        return new_request"),
    # ---- C18 ----
    dict(id="C18-get-bit-plus1", prop="C18", file=SL,
         old="    return (value & (1 << idx)) != 0",
         new="    return (value & (1 << (idx + 1) % 16)) != 0"),
    dict(id="C18-mask-shift", prop="C18", file=SL,
         old="    bit_mask = UINT.encode(2 ** bit_position) if bit_field else b\"\\xFF\\xFF\"",
         new="    bit_mask = UINT.encode(2 ** ((bit_position + 1) % 16)) if bit_field else b\"\\xFF\\xFF\""),
    dict(id="C18-pre-acc-offsets-swapped", prop="C18", file=SL,
         old="                        unpack_func(data[new_value + 2 : new_value + 2 + data_size]),",
         new="                        unpack_func(data[new_value + 4 : new_value + 4 + data_size]),"),
    dict(id="C18-file-range-dropped", prop="C18", file=SL,
         old="            if (1 <= int(t.group(\"file_number\")) <= 255) and (\n                0 <= int(t.group(\"element_number\")) <= 255\n            ):",
         new="            if (0 <= int(t.group(\"file_number\")) <= 999) and (\n                0 <= int(t.group(\"element_number\")) <= 255\n            ):"),
]

# C16-serial-x: serial formatted without zero padding (module identity)
for m in MUTANTS:
    if m["id"] == "C16-serial-x":
        m["file"] = CT
        m["old"] = ("        values[\"vendor\"] = VENDORS.get(values[\"vendor\"], \"UNKNOWN\")\n"
                    "        values[\"serial\"] = f\"{values['serial']:08x}\"\n\n        return values\n\n    @classmethod\n    def _encode")
        m["new"] = ("        values[\"vendor\"] = VENDORS.get(values[\"vendor\"], \"UNKNOWN\")\n"
                    "        values[\"serial\"] = f\"{values['serial']:x}\"\n\n        return values\n\n    @classmethod\n    def _encode")
